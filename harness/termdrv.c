/* termdrv - drives the real src/gvt/termination.c of one worker thread with legal environment
 * sequences (process / rollback / GVT) and logs calls and hook reports as ndjson (property C07). */
#define _GNU_SOURCE
#include <core/core.h>
#include <gvt/termination.h>
#include <lp/lp.h>
#include <verif/hooks.h>

#include <pthread.h>
#include <stdio.h>
#include <stdlib.h>
#include <string.h>

#define NLP 3
#define MAXT 6
#define INF_T 1073741824L
static FILE *out;
static int cur_pred[NLP];
static uint64_t rs;
static int seq_len;

static uint64_t rnd(void)
{
	rs ^= rs << 13;
	rs ^= rs >> 7;
	rs ^= rs << 17;
	return rs;
}
static long b2i(uint64_t b)
{
	double d;
	memcpy(&d, &b, 8);
	return d >= 1e300 ? INF_T : (long)d;
}
unsigned verif_batch(unsigned d) { return d; }
void verif_hook(unsigned p, uint64_t a, uint64_t b, uint64_t c, uint64_t d)
{
	switch(p) {
		case VP_TERM_LP:
			if(!d)
				fprintf(out, "{\"e\":\"TermLp\",\"lp\":%d,\"t\":%ld,\"term\":%d}\n", (int)a, b2i(b), (int)c);
			break;
		case VP_TERM_UNDO:
			fprintf(out, "{\"e\":\"TermUndo\",\"lp\":%d,\"keep\":%d}\n", (int)a, (int)c);
			break;
		case VP_VOTE:
			fprintf(out, "{\"e\":\"Vote\",\"gvt\":%ld,\"lte\":%d}\n", b2i(a), (int)c);
			break;
		default:
			break;
	}
}
static bool committed(lp_id_t me, const void *s)
{
	(void)s;
	return cur_pred[me];
}
static void dummy(lp_id_t me, simtime_t now, unsigned t, const void *c, unsigned s, void *st)
{
	(void)me, (void)now, (void)t, (void)c, (void)s, (void)st;
}

static void *one_sequence(void *arg)
{
	(void)arg;
	/* environment state */
	int n[NLP] = {0};
	int evt[NLP][64];
	int gvt = 0;
	rid = 0;
	termination_global_init();
	fprintf(out, "{\"e\":\"Reset\"}\n");
	for(int p = 0; p < NLP; ++p) {
		cur_pred[p] = (rnd() % 6) == 0;
		fprintf(out, "{\"e\":\"Init\",\"lp\":%d,\"pred\":%d}\n", p, cur_pred[p]);
		lps[p].termination_t = 0;
		termination_lp_init(&lps[p]);
	}
	int mode = (int)(rnd() % 3); /* 0: many time-0 events, 1: spread, 2: predicates flip often */
	for(int i = 0; i < seq_len; ++i) {
		unsigned k = (unsigned)(rnd() % 100);
		int p = (int)(rnd() % NLP);
		if(k < 55) {
			int last = n[p] ? evt[p][n[p] - 1] : 0;
			int lo = last > gvt ? last : gvt;
			if(lo > MAXT || n[p] >= 60)
				continue;
			int t = lo + (mode == 0 ? (rnd() % 4 == 0) : (int)(rnd() % 3));
			if(t > MAXT)
				t = MAXT;
			int pred = mode == 2 ? (int)(rnd() % 2) : (int)(rnd() % 3 != 0);
			cur_pred[p] = pred;
			evt[p][n[p]++] = t;
			fprintf(out, "{\"e\":\"Proc\",\"lp\":%d,\"t\":%d,\"pred\":%d}\n", p, t, pred);
			termination_on_msg_process(&lps[p], (simtime_t)t);
		} else if(k < 75) {
			if(!n[p])
				continue;
			int keep = (int)(rnd() % (unsigned)n[p]); /* keep < n: at least one event undone */
			int lo = keep ? evt[p][keep - 1] : 0, hi = evt[p][keep];
			if(lo < gvt)
				lo = gvt;
			if(lo > hi)
				continue;
			int t = lo + (int)(rnd() % (unsigned)(hi - lo + 1));
			n[p] = keep;
			fprintf(out, "{\"e\":\"Rb\",\"lp\":%d,\"k\":%d,\"t\":%d}\n", p, keep, t);
			termination_on_lp_rollback(&lps[p], (simtime_t)t);
		} else {
			/* GVT must not exceed anything that can still be rolled back: the environment only ever
			 * rolls back to times >= gvt, so any larger value is legal for the accounting */
			int g = gvt + 1 + (int)(rnd() % 2);
			if(g > MAXT + 1)
				continue;
			gvt = g;
			fprintf(out, "{\"e\":\"G\",\"g\":%d}\n", g);
			termination_on_gvt((simtime_t)g);
		}
	}
	return NULL;
}

int main(int argc, char **argv)
{
	if(argc < 5) {
		fprintf(stderr, "usage: termdrv <out> <seed> <sequences> <length>\n");
		return 2;
	}
	out = fopen(argv[1], "w");
	rs = strtoull(argv[2], NULL, 10) * 2654435761ULL + 88172645463325252ULL;
	int nseq = atoi(argv[3]);
	seq_len = atoi(argv[4]);
	global_config.lps = NLP;
	global_config.n_threads = 1;
	global_config.termination_time = SIMTIME_MAX;
	global_config.committed = committed;
	global_config.dispatcher = dummy;
	n_lps_node = NLP;
	lps = calloc(NLP, sizeof(*lps));
	for(int s = 0; s < nseq; ++s) {
		/* the accounting lives in thread-local variables: a fresh thread per sequence resets it */
		pthread_t t;
		pthread_create(&t, NULL, one_sequence, NULL);
		pthread_join(t, NULL);
	}
	fprintf(out, "{\"e\":\"End\"}\n");
	fclose(out);
	return 0;
}
