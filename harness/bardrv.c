/* bardrv - N real threads calling the real sync_thread_barrier() K times each under the cooperative
 * scheduler; yields between the fetch_add and every load of the spin loops.  C17 */
#define _GNU_SOURCE
#include <core/core.h>
#include <core/sync.h>
#include <verif/hooks.h>

#include "vsched.h"

#include <pthread.h>
#include <stdatomic.h>
#include <stdbool.h>
#include <stdio.h>
#include <stdlib.h>
#include <unistd.h>

static FILE *out;
static int K;
static __thread int my_id;
static int real_mode, NT;
static _Atomic int entered[64];
static int *lead_cnt;           /* per use: number of threads that were told they are the leader */
static _Atomic long early_cnt;
static _Atomic int finished[64];

unsigned verif_batch(unsigned d) { return d; }
void verif_hook(unsigned p, uint64_t a, uint64_t b, uint64_t c, uint64_t d)
{
	(void)d;
	if(real_mode)
		return;
	if(p == VP_BAR_ARRIVE)
		fprintf(out, "{\"e\":\"BarArrive\",\"thr\":%d,\"c\":%d,\"l\":%d,\"ph\":%d}\n", my_id, (int)a, (int)b, (int)c);
	else if(p == VP_BAR_LEAVE)
		fprintf(out, "{\"e\":\"BarLeave\",\"thr\":%d,\"l\":%d}\n", my_id, (int)a);
	vs_yield(p, (unsigned long)a);
}
static void on_hang(const char *why)
{
	fprintf(out, "{\"e\":\"Hang\",\"why\":\"%s\"}\n", why);
	fflush(out);
}
static void *worker(void *arg)
{
	my_id = (int)(long)arg;
	for(int i = 0; i < K && real_mode; ++i) {
		/* truly concurrent threads: monitor on the observable contract only */
		atomic_store(&entered[my_id], i + 1);
		bool l = sync_thread_barrier();
		for(int u = 0; u < NT; ++u)
			if(atomic_load(&entered[u]) < i + 1)
				atomic_fetch_add(&early_cnt, 1);
		if(l)
			__atomic_fetch_add(&lead_cnt[i], 1, __ATOMIC_RELAXED);
	}
	for(int i = 0; i < K && !real_mode; ++i) {
		sync_thread_barrier();
		/* a fast thread may run ahead into the next use: leave that entirely to the scheduler */
	}
	atomic_store(&finished[my_id], 1);
	return NULL;
}
int main(int argc, char **argv)
{
	if(argc < 7)
		return 2;
	out = fopen(argv[1], "w");
	unsigned long seed = strtoul(argv[2], NULL, 10);
	int n = atoi(argv[3]);
	K = atoi(argv[4]);
	unsigned num = 1, den = 2;
	sscanf(argv[5], "%u/%u", &num, &den);
	int policy = atoi(argv[6]);
	global_config.n_threads = (unsigned)n;
	NT = n;
	real_mode = policy == 9;
	fprintf(out, "{\"e\":\"Cfg\",\"n\":%d,\"k\":%d,\"seed\":%lu,\"real\":%d}\n", n, real_mode ? 1 : K, seed, real_mode);
	if(real_mode)
		lead_cnt = calloc((size_t)K, sizeof(int));
	else {
		vs_set_hang_cb(on_hang);
		vs_init(seed, num, den, 400000, policy);
	}
	pthread_t th[64];
	for(int i = 0; i < n; ++i)
		pthread_create(&th[i], NULL, worker, (void *)(long)i);
	if(real_mode) {
		/* watchdog: with truly concurrent threads a stuck barrier is recognised by the absence of progress (no thread enters a new use
		 * for a long time although the threads only spin); it is reported as an observation and the run is abandoned */
		long last = -1;
		int idle = 0;
		for(;;) {
			long sum = 0, done = 1;
			for(int u = 0; u < n; ++u) {
				sum += atomic_load(&entered[u]);
				done &= atomic_load(&finished[u]);
			}
			if(done)
				break;
			if(sum == last) {
				if(++idle >= 240) { /* 240 x 0.25 s = 60 s without any thread entering a new use */
					fprintf(out, "{\"e\":\"Hang\",\"why\":\"no thread entered a new barrier use for 60 s (real threads, %ld uses entered in total)\"}\n", sum);
					fflush(out);
					_exit(0);
				}
			} else {
				idle = 0;
				last = sum;
			}
			usleep(250000);
		}
	}
	for(int i = 0; i < n; ++i)
		pthread_join(th[i], NULL);
	if(real_mode) {
		long bad = 0, first = -1;
		for(int i = 0; i < K; ++i)
			if(lead_cnt[i] != 1) {
				++bad;
				if(first < 0)
					first = i;
			}
		fprintf(out, "{\"e\":\"RealSummary\",\"uses\":%d,\"bad_leaders\":%ld,\"first_bad\":%ld,\"first_bad_leaders\":%d,\"early\":%ld}\n", K, bad, first,
		    first >= 0 ? lead_cnt[first] : 1, (long)early_cnt);
		fclose(out);
		return 0;
	}
	fprintf(out, "{\"e\":\"End\"}\n");
	fclose(out);
	return 0;
}
