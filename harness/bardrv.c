/* bardrv - N real threads calling the real sync_thread_barrier() K times each under the cooperative
 * scheduler; yields between the fetch_add and every load of the spin loops.  C17 */
#define _GNU_SOURCE
#include <core/core.h>
#include <core/sync.h>
#include <verif/hooks.h>

#include "vsched.h"

#include <pthread.h>
#include <stdio.h>
#include <stdlib.h>
#include <unistd.h>

static FILE *out;
static int K;
static __thread int my_id;

unsigned verif_batch(unsigned d) { return d; }
void verif_hook(unsigned p, uint64_t a, uint64_t b, uint64_t c, uint64_t d)
{
	(void)d;
	if(p == VP_BAR_ARRIVE)
		fprintf(out, "{\"e\":\"BarArrive\",\"thr\":%d,\"c\":%d,\"l\":%d,\"ph\":%d}\n", my_id, (int)a, (int)b, (int)c);
	else if(p == VP_BAR_LEAVE)
		fprintf(out, "{\"e\":\"BarLeave\",\"thr\":%d,\"l\":%d}\n", my_id, (int)a);
	vs_yield(p, (unsigned long)a);
}
static void on_hang(const char *why)
{
	fprintf(out, "{\"e\":\"Hang\",\"why\":\"%s\"}\n", why);
	fflush(out);
}
static void *worker(void *arg)
{
	my_id = (int)(long)arg;
	for(int i = 0; i < K; ++i) {
		sync_thread_barrier();
		/* a fast thread may run ahead into the next use: leave that entirely to the scheduler */
	}
	return NULL;
}
int main(int argc, char **argv)
{
	if(argc < 7)
		return 2;
	out = fopen(argv[1], "w");
	unsigned long seed = strtoul(argv[2], NULL, 10);
	int n = atoi(argv[3]);
	K = atoi(argv[4]);
	unsigned num = 1, den = 2;
	sscanf(argv[5], "%u/%u", &num, &den);
	int policy = atoi(argv[6]);
	global_config.n_threads = (unsigned)n;
	fprintf(out, "{\"e\":\"Cfg\",\"n\":%d,\"k\":%d,\"seed\":%lu}\n", n, K, seed);
	vs_set_hang_cb(on_hang);
	vs_init(seed, num, den, 400000, policy);
	pthread_t th[64];
	for(int i = 0; i < n; ++i)
		pthread_create(&th[i], NULL, worker, (void *)(long)i);
	for(int i = 0; i < n; ++i)
		pthread_join(th[i], NULL);
	fprintf(out, "{\"e\":\"End\"}\n");
	fclose(out);
	return 0;
}
