#pragma once
#include <stdint.h>
extern void vs_init(uint64_t seed, unsigned num, unsigned den, unsigned long budget, int policy);
extern void vs_load_script(const char *path);
extern void vs_yield(unsigned point, unsigned long site);
extern void vs_block_until(int (*cond)(void *), void *arg);
extern int vs_self(void);
extern int vs_active(void);
extern unsigned long vs_steps(void);
extern uint64_t vs_random(void);
extern void vs_set_hang_cb(void (*cb)(const char *));
extern void vs_set_group(int g);
extern int vs_group(void);
extern void vs_set_skew(unsigned point, unsigned len);
extern void vs_park(int logical, unsigned point, unsigned len);
struct vs_guide_roles {
	unsigned p_alloc, p_precas, p_push, p_drain, p_extract, p_flag, p_anti_local, p_anti_remote, p_undo, p_rb_begin, p_netsend, p_netrecv;
};
extern void vs_load_guide(const char *path, const unsigned *shared, unsigned n, const struct vs_guide_roles *r);
extern void vs_guide_tag(int tag);
extern int vs_guide_status(unsigned long *pos, unsigned long *len, const char **why);
extern int vs_guide_expect(void);
extern void vs_delay(int tag, unsigned point, unsigned long nth, unsigned len);
extern void vs_set_skew_tag(int tag);
