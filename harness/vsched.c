/* vsched - cooperative deterministic scheduler for the real ROOT-Sim worker threads.
 *
 * Linked with -Wl,--wrap=pthread_create,--wrap=pthread_join.  Exactly one logical thread
 * (the baton holder) runs at any time; a switch can only happen inside vs_yield(), which the
 * observation hooks call.  The choice of the next thread is a pure function of the seed, so a
 * run is reproducible; a schedule script can force the choices instead.
 */
#define _GNU_SOURCE
#include "vsched.h"

#include <pthread.h>
#include <semaphore.h>
#include <stdio.h>
#include <stdlib.h>
#include <string.h>
#include <unistd.h>

#define VS_MAX 64

struct vthr {
	sem_t sem;
	pthread_t real;
	void *(*fn)(void *);
	void *arg;
	void *ret;
	int state; /* 0 unused, 1 runnable, 2 finished, 3 waiting join, 4 blocked (external condition) */
	int join_target;
	int group;
	unsigned last_point;
	unsigned long last_site;
	unsigned long steps;
};

static struct vthr thr[VS_MAX];
static int n_thr = 1; /* logical thread 0 is the creator (main) */
static __thread int self_id = 0;
static int active = 0;
static uint64_t rng_s = 88172645463325252ULL;
static unsigned sw_num = 1, sw_den = 4;
static unsigned long step_budget = 0, steps = 0;
static int policy = 0; /* 0 random, 1 round-robin quanta, 2 pct-like */
static unsigned quantum_left = 0;
static int prio[VS_MAX];
static unsigned long pct_change[8];
static int n_pct = 0;
static void (*hang_cb)(const char *) = NULL;

/* script: sequence of logical thread ids to hand the baton to at successive switch decisions */
static int *script = NULL;
static unsigned long script_len = 0, script_pos = 0;

extern int __real_pthread_create(pthread_t *, const pthread_attr_t *, void *(*)(void *), void *);
extern int __real_pthread_join(pthread_t, void **);

static uint64_t vs_rand(void)
{
	rng_s ^= rng_s << 13;
	rng_s ^= rng_s >> 7;
	rng_s ^= rng_s << 17;
	return rng_s;
}

uint64_t vs_random(void) { return vs_rand(); }

int vs_self(void) { return self_id; }
/* a group tag inherited by created threads (the fake MPI uses it as the rank of the thread) */
void vs_set_group(int g) { thr[self_id].group = g; }
int vs_group(void) { return thr[self_id].group; }
int vs_active(void) { return active; }
unsigned long vs_steps(void) { return steps; }

void vs_set_hang_cb(void (*cb)(const char *)) { hang_cb = cb; }

void vs_init(uint64_t seed, unsigned num, unsigned den, unsigned long budget, int pol)
{
	memset(thr, 0, sizeof(thr));
	n_thr = 1;
	self_id = 0;
	thr[0].state = 1;
	sem_init(&thr[0].sem, 0, 0);
	rng_s = seed * 6364136223846793005ULL + 1442695040888963407ULL;
	if(!rng_s)
		rng_s = 1;
	for(int i = 0; i < 8; ++i)
		vs_rand();
	sw_num = num;
	sw_den = den ? den : 1;
	step_budget = budget;
	steps = 0;
	policy = pol;
	active = 1;
	for(int i = 0; i < VS_MAX; ++i)
		prio[i] = (int)(vs_rand() % 1000);
	n_pct = 0;
	if(pol == 2) {
		n_pct = 3;
		for(int i = 0; i < n_pct; ++i)
			pct_change[i] = vs_rand() % (budget ? (budget / 50 + 1) : 4000);
	}
}

void vs_load_script(const char *path)
{
	FILE *f = fopen(path, "r");
	if(!f)
		return;
	unsigned long cap = 1024;
	script = malloc(cap * sizeof(int));
	int v;
	while(fscanf(f, "%d", &v) == 1) {
		if(script_len == cap) {
			cap *= 2;
			script = realloc(script, cap * sizeof(int));
		}
		script[script_len++] = v;
	}
	fclose(f);
	script_pos = 0;
}

/* guide: a behaviour of the specification to be followed: the order of the shared accesses (thread tag, observation point).
 * The thread whose turn it is runs until it reports the expected shared access; the others stay parked (they only run
 * while the thread in turn waits in a barrier).  A shared access out of turn, or an expected one that does not come, is a
 * mismatch: the guide is abandoned (the run continues under the policy) and the first mismatch is kept for the report. */
struct guide_ent {
	int tag;
	unsigned point;
};
static struct guide_ent *guide = NULL;
static unsigned long guide_len = 0, guide_pos = 0, guide_idle = 0;
static int guide_on = 0, guide_rr = 0;
static int tag_of[VS_MAX];
static char guide_why[200];
static unsigned shared_points[16], n_shared = 0;
static struct vs_guide_roles roles;
static int guide_eager = -1;
static unsigned guide_spin = 0;

void vs_load_guide(const char *path, const unsigned *shared, unsigned n, const struct vs_guide_roles *r)
{
	roles = *r;
	FILE *f = fopen(path, "r");
	if(!f)
		return;
	unsigned long cap = 1024;
	guide = malloc(cap * sizeof(*guide));
	int t;
	unsigned k;
	while(fscanf(f, "%d %u", &t, &k) == 2) {
		if(guide_len == cap) {
			cap *= 2;
			guide = realloc(guide, cap * sizeof(*guide));
		}
		guide[guide_len].tag = t;
		guide[guide_len++].point = k;
	}
	fclose(f);
	for(unsigned i = 0; i < n && i < 16; ++i)
		shared_points[n_shared++] = shared[i];
	for(int i = 0; i < VS_MAX; ++i)
		tag_of[i] = -1;
	guide_on = 1;
	guide_why[0] = 0;
}
void vs_guide_tag(int tag) { tag_of[self_id] = tag; }
/* while a behaviour is being followed: the observation point the calling thread is expected to reach next, 0 if it is not its turn,
 * -1 when no behaviour is being followed */
int vs_guide_expect(void)
{
	if(!guide_on || guide_pos >= guide_len)
		return -1;
	return guide[guide_pos].tag == tag_of[self_id] ? (int)guide[guide_pos].point : 0;
}
/* 0: no guide, 1: followed to its end, 2: still inside the guide, 3: mismatch */
int vs_guide_status(unsigned long *pos, unsigned long *len, const char **why)
{
	*pos = guide_pos;
	*len = guide_len;
	*why = guide_why;
	if(!guide)
		return 0;
	if(guide_why[0])
		return 3;
	return guide_pos >= guide_len ? 1 : 2;
}
/* the next shared access the behaviour expects from the thread with this tag (0: none) */
static unsigned guide_next_kind(int tag)
{
	for(unsigned long i = guide_pos; i < guide_len; ++i)
		if(guide[i].tag == tag)
			return guide[i].point;
	return 0;
}
/* A thread that has just performed its shared access keeps running through its thread-private steps (the specification
 * takes them at once: they commute with everything) until the observation point that directly precedes its NEXT shared
 * access - there it is parked until the behaviour says so.  In particular the exchange of an EMPTY inbox followed by a pop
 * from the private heap belongs to the private steps (next access: the flag word of the popped message), while a thread whose
 * next access is an effective exchange or a network receive is parked at the boundary of its main-loop pass. */
static int guide_stop_here(int tag, unsigned point, unsigned long site)
{
	unsigned nk = guide_next_kind(tag);
	if(point == 0 && (site == 2 || site == 3))
		return 1; /* barrier */
	if(point == roles.p_extract && site == 0)
		return 1; /* nothing to do */
	if(nk == 0)
		return 1;
	if(nk == roles.p_drain || nk == roles.p_netrecv)
		return point == 0 && (site == 1 || site == 21); /* end of a main-loop pass / network probe: the exchange comes next */
	if(nk == roles.p_flag)
		return point == roles.p_extract && site != 0;
	if(nk == roles.p_push)
		return point == roles.p_precas;
	/* a fetch_add of the rollback loop or a network send: directly after one of these points */
	return point == roles.p_rb_begin || point == roles.p_anti_local || point == roles.p_undo || point == roles.p_anti_remote ||
	    point == roles.p_push || point == roles.p_alloc;
}
static void guide_fail(const char *what, int me, unsigned point)
{
	if(!guide_why[0])
		snprintf(guide_why, sizeof(guide_why), "%s at guide position %lu (expected thread %d point %u; thread %d reported point %u)", what,
		    guide_pos, guide_pos < guide_len ? guide[guide_pos].tag : -1, guide_pos < guide_len ? guide[guide_pos].point : 0, tag_of[me], point);
	guide_on = 0;
}

static void hang(const char *why)
{
	char buf[4096];
	int o = snprintf(buf, sizeof(buf), "%s steps=%lu", why, steps);
	for(int i = 0; i < n_thr && o < (int)sizeof(buf) - 64; ++i)
		o += snprintf(buf + o, sizeof(buf) - o, " T%d:st%d:p%u:s%lu", i, thr[i].state, thr[i].last_point,
		    thr[i].last_site);
	if(hang_cb)
		hang_cb(buf);
	fprintf(stderr, "VSCHED-HANG %s\n", buf);
	fflush(NULL);
	_exit(4);
}

static unsigned coarse_point = 8; /* VP_Q_DRAIN: first observation point of a pass of the worker loop (the inbox exchange) */
static int rr_next;
static unsigned gvt_only[VS_MAX];
static unsigned long poll_ctr;
static int poll_rr;
/* skew: a thread that reaches the designated observation point is parked for a random number of scheduling
 * decisions with probability 1/3, so that threads drift apart around that point (e.g. GVT phase changes) */
static unsigned skew_point = 0xffffffffU, skew_len = 0;
static int skew_tag = -1; /* -1: every thread; otherwise only the thread with this trace tag is subject to the skew */
void vs_set_skew_tag(int tag) { skew_tag = tag; }
static unsigned parked[VS_MAX];
/* keep one logical thread (1 = the first one created) off the processor for the first `len' decisions */
static int park_thr = -1;
static unsigned park_point, park_len;
void vs_park(int logical, unsigned point, unsigned len)
{
	park_thr = logical;
	park_point = point;
	park_len = len;
}
/* delay injection: the thread with trace tag `tag' is kept off the processor for `len' decisions at its n-th arrival at `point' */
static int delay_tag = -1;
static unsigned delay_point, delay_len;
static unsigned long delay_nth, delay_seen;
void vs_delay(int tag, unsigned point, unsigned long nth, unsigned len)
{
	delay_tag = tag;
	delay_point = point;
	delay_nth = nth;
	delay_len = len;
	delay_seen = 0;
}
void vs_set_skew(unsigned point, unsigned len)
{
	skew_point = point;
	skew_len = len;
}
static int pick_next(int me, int me_runnable)
{
	int cand[VS_MAX], n = 0;
	/* threads blocked on an external condition (state 4) re-test it when they are resumed: poll them
	 * regularly (round robin), and whenever nothing else can run */
	int blocked[VS_MAX], nb = 0;
	int unparked = 0;
	for(int i = 0; i < n_thr; ++i)
		if(thr[i].state == 1 && (i != me || me_runnable) && !parked[i])
			++unparked;
	for(int i = 0; i < n_thr; ++i) {
		if(thr[i].state == 1 && (i != me || me_runnable)) {
			if(parked[i] && unparked) {
				--parked[i];
				continue;
			}
			parked[i] = 0;
			cand[n++] = i;
		} else if(thr[i].state == 4 && i != me)
			blocked[nb++] = i;
	}
	if(nb && (!n || (++poll_ctr % 16) == 0))
		return blocked[poll_rr++ % nb];
	if(!n)
		return -1;
	if(script && script_pos < script_len) {
		int want = script[script_pos++];
		for(int i = 0; i < n; ++i)
			if(cand[i] == want)
				return want;
		/* divergence from the script: fall through to the policy */
	}
	if(policy == 4) {
		for(int k = 1; k <= n_thr; ++k) {
			int want = (me + k) % n_thr;
			for(int i = 0; i < n; ++i)
				if(cand[i] == want && want != me)
					return want;
		}
		(void)rr_next;
	}
	if(policy == 2) {
		int best = cand[0];
		for(int i = 1; i < n; ++i)
			if(prio[cand[i]] > prio[best])
				best = cand[i];
		return best;
	}
	if(me_runnable && n > 1) {
		/* exclude self: the caller decided to switch */
		int k = (int)(vs_rand() % (unsigned)(n - 1));
		for(int i = 0; i < n; ++i) {
			if(cand[i] == me)
				continue;
			if(!k--)
				return cand[i];
		}
	}
	return cand[vs_rand() % (unsigned)n];
}

static void hand_over(int me, int next)
{
	if(next == me)
		return;
	sem_post(&thr[next].sem);
	while(sem_wait(&thr[me].sem) != 0)
		;
}

void vs_yield(unsigned point, unsigned long site)
{
	if(!active)
		return;
	int me = self_id;
	thr[me].last_point = point;
	thr[me].last_site = site;
	thr[me].steps++;
	++steps;
	if(step_budget && steps > step_budget)
		hang("budget");
	if(n_thr <= 1)
		return;

	int do_switch;
	if(guide_on) {
		int is_shared = 0;
		for(unsigned i = 0; i < n_shared; ++i)
			is_shared |= shared_points[i] == point && site != 0;
		if(is_shared) {
			if(guide_pos < guide_len && guide[guide_pos].tag == tag_of[me] && guide[guide_pos].point == point) {
				++guide_pos;
				guide_idle = 0;
				guide_eager = me;
			} else
				guide_fail(guide_pos < guide_len ? "shared access out of turn" : "shared access after the end of the behaviour", me, point);
		}
		if(guide_on && guide_pos >= guide_len)
			guide_on = 0; /* followed to the end: the rest of the run (GVT, termination, teardown) is up to the policy */
	}
	if(guide_on) {
		int target = -1;
		for(int i = 0; i < n_thr; ++i)
			if(tag_of[i] == guide[guide_pos].tag && thr[i].state != 0)
				target = i;
		int waiting = 0;
		if(target != me && guide_eager == me) {
			if(!guide_stop_here(tag_of[me], point, site))
				return;
			guide_eager = -1;
		}
		if(target == me) {
			guide_eager = -1;
			if(point == 0 && site == 1 && ++guide_idle > 12)
				guide_fail("the expected shared access is not performed (thread idle)", me, point);
			waiting = point == 0 && (site == 2 || site == 3);
			if(!waiting || !guide_on)
				return;
			/* a thread resumed inside a barrier loop re-tests the barrier before it is considered to be waiting */
			if(guide_spin++ < 1)
				return;
			guide_spin = 0;
		}
		if(guide_on && target >= 0 && target != me && thr[target].state == 1) {
			guide_spin = 0;
			hand_over(me, target);
			guide_spin = 0;
			return;
		}
		if(guide_on) {
			/* the thread in turn waits in a thread barrier (only threads of its rank can release it), has not started yet, or is
			 * blocked on the network (any rank may be needed; it is resumed after every single step of another thread so that
			 * it re-tests its condition at once): let the others run, one step each */
			if(target >= 0 && target != me && thr[target].state == 4) {
				hand_over(me, target);
				return;
			}
			for(int k = 1; k <= n_thr; ++k) {
				int c = (guide_rr + k) % n_thr;
				if(c != me && c != target && thr[c].state == 1 && (!waiting || thr[c].group == thr[me].group)) {
					guide_rr = c;
					hand_over(me, c);
					guide_spin = 0;
					return;
				}
			}
			return;
		}
	}
	if(delay_tag >= 0 && tag_of[me] == delay_tag && point == delay_point && ++delay_seen == delay_nth) {
		delay_tag = -1;
		parked[me] = delay_len;
		int nx = pick_next(me, 1);
		if(nx >= 0 && nx != me)
			hand_over(me, nx);
		return;
	}
	if(me == park_thr && point == park_point) {
		/* one-shot: the designated thread is kept off the processor from its first arrival at this point */
		park_thr = -1;
		parked[me] = park_len;
		int nx = pick_next(me, 1);
		if(nx >= 0 && nx != me)
			hand_over(me, nx);
		return;
	}
	if(skew_len && point == skew_point && (skew_tag < 0 || tag_of[me] == skew_tag) && (vs_rand() % 3) == 0) {
		parked[me] = 1 + (unsigned)(vs_rand() % skew_len);
		int nx = pick_next(me, 1);
		if(nx >= 0 && nx != me)
			hand_over(me, nx);
		return;
	}
	if(script && script_pos < script_len) {
		do_switch = 1;
	} else if(policy == 1) {
		if(quantum_left) {
			--quantum_left;
			do_switch = 0;
		} else {
			quantum_left = 1 + (unsigned)(vs_rand() % (sw_den * 2));
			do_switch = 1;
		}
	} else if(policy == 4) {
		/* iteration-granular interleaving: a thread keeps the processor for one whole pass of its main loop
		 * (one batch, one GVT step) and is switched out only at the point that opens the next pass */
		if(point == coarse_point)
			gvt_only[me] = 0;
		else if(point == 0 && site == 1)
			gvt_only[me]++;
		/* spin loops must yield: the barrier loops, and a loop that only polls the GVT (no batch in between) */
		do_switch = (point == coarse_point && (vs_rand() % sw_den) < sw_num) || (point == 0 && (site == 2 || site == 3)) ||
		    (point == 0 && site == 1 && gvt_only[me] >= 2);
	} else if(policy == 2) {
		do_switch = 1;
		for(int i = 0; i < n_pct; ++i)
			if(pct_change[i] == steps)
				prio[me] = -(int)(i + 1);
		/* spinning threads must not starve the others under strict priorities */
		if(point == 0 && (vs_rand() % 8) == 0) {
			int lo = prio[0];
			for(int i = 1; i < n_thr; ++i)
				if(prio[i] < lo)
					lo = prio[i];
			prio[me] = lo - 1;
		}
	} else {
		do_switch = (vs_rand() % sw_den) < sw_num;
	}
	if(!do_switch)
		return;
	int next = pick_next(me, 1);
	if(next < 0 || next == me)
		return;
	hand_over(me, next);
}

/* the calling thread cannot progress until an external condition changes (used by the fake MPI) */
void vs_block_until(int (*cond)(void *), void *arg)
{
	if(!active)
		return;
	int me = self_id;
	unsigned long spins = 0;
	while(!cond(arg)) {
		thr[me].state = 4;
		int next = -1;
		if(guide_on) {
			for(int k = 1; k <= n_thr && next < 0; ++k) {
				int c = (guide_rr + k) % n_thr;
				if(c != me && thr[c].state == 1)
					next = guide_rr = c;
			}
			for(int k = 1; k <= n_thr && next < 0; ++k) {
				int c = (guide_rr + k) % n_thr;
				if(c != me && thr[c].state == 4)
					next = guide_rr = c;
			}
		} else
			next = pick_next(me, 0);
		++steps;
		if(step_budget && steps > step_budget) {
			thr[me].state = 1;
			hang("budget-blocked");
		}
		/* only blocked threads are left and none of their conditions becomes true */
		if(next < 0 || (++spins > 100000 && thr[next].state == 4)) {
			int any_runnable = 0;
			for(int i = 0; i < n_thr; ++i)
				any_runnable |= thr[i].state == 1;
			if(next < 0 || !any_runnable) {
				thr[me].state = 1;
				hang("deadlock");
			}
		}
		hand_over(me, next);
	}
	thr[me].state = 1;
}

static void *trampoline(void *p)
{
	struct vthr *t = p;
	self_id = (int)(t - thr);
	while(sem_wait(&t->sem) != 0)
		;
	t->ret = t->fn(t->arg);
	/* finished: wake a joiner, pass the baton on */
	int me = self_id;
	t->state = 2;
	for(int i = 0; i < n_thr; ++i)
		if(thr[i].state == 3 && thr[i].join_target == me)
			thr[i].state = 1;
	int next = pick_next(me, 0);
	if(next < 0)
		hang("deadlock-at-exit");
	sem_post(&thr[next].sem);
	return t->ret;
}

int __wrap_pthread_create(pthread_t *p, const pthread_attr_t *a, void *(*fn)(void *), void *arg)
{
	if(!active)
		return __real_pthread_create(p, a, fn, arg);
	if(n_thr >= VS_MAX)
		return 11;
	struct vthr *t = &thr[n_thr];
	sem_init(&t->sem, 0, 0);
	t->fn = fn;
	t->arg = arg;
	t->state = 1;
	t->group = thr[self_id].group;
	int r = __real_pthread_create(&t->real, a, trampoline, t);
	if(r)
		return r;
	*p = t->real;
	++n_thr;
	return 0;
}

int __wrap_pthread_join(pthread_t p, void **ret)
{
	if(!active)
		return __real_pthread_join(p, ret);
	int target = -1;
	for(int i = 1; i < n_thr; ++i)
		if(pthread_equal(thr[i].real, p))
			target = i;
	if(target < 0)
		return __real_pthread_join(p, ret);
	int me = self_id;
	while(thr[target].state != 2) {
		thr[me].state = 3;
		thr[me].join_target = target;
		int next = pick_next(me, 0);
		if(next < 0)
			hang("deadlock-in-join");
		sem_post(&thr[next].sem);
		while(sem_wait(&thr[me].sem) != 0)
			;
		thr[me].state = 1;
	}
	return __real_pthread_join(p, ret);
}
