/* randdrv - the numerical library on crafted and sequential generator states.  C18 */
#define _GNU_SOURCE
#include <ROOT-Sim.h>
#include <core/core.h>
#include <lib/random/random.h>
#include <lib/random/xoroshiro.h>
#include <lp/lp.h>
#include <verif/hooks.h>

#include <math.h>
#include <signal.h>
#include <stdio.h>
#include <stdlib.h>
#include <string.h>
#include <unistd.h>

unsigned verif_batch(unsigned d) { return d; }
void verif_hook(unsigned p, uint64_t a, uint64_t b, uint64_t c, uint64_t d) { (void)p, (void)a, (void)b, (void)c, (void)d; }

static FILE *out;
static struct lp_ctx fake[3];
static struct rng_ctx rng[3], snap[3];

static uint64_t inv_mod64(uint64_t a)
{
	uint64_t x = a; /* Newton iteration, a odd */
	for(int i = 0; i < 6; ++i)
		x *= 2 - a * x;
	return x;
}
static uint64_t rotr(uint64_t x, int k) { return (x >> k) | (x << (64 - k)); }
/* make the next raw output of LP 0 equal to u: solve rotl(s1 * 5, 7) * 9 = u */
static void craft(uint64_t u)
{
	uint64_t s1 = rotr(u * inv_mod64(9), 7) * inv_mod64(5);
	rng[0].state[1] = s1;
}
static void bits(uint64_t v)
{
	fputc('[', out);
	for(int i = 63; i >= 0; --i)
		fprintf(out, "%d%s", (int)((v >> i) & 1), i ? "," : "");
	fputc(']', out);
}
static void before(void) { memcpy(snap, rng, sizeof(rng)); }
static int others_same(void) { return !memcmp(&snap[1], &rng[1], sizeof(rng[1])) && !memcmp(&snap[2], &rng[2], sizeof(rng[2])); }
static int own_changed(void) { return memcmp(&snap[0], &rng[0], sizeof(rng[0])) != 0; }

static void one_random(uint64_t u)
{
	craft(u);
	before();
	double r = Random();
	uint64_t rb;
	memcpy(&rb, &r, 8);
	fprintf(out, "{\"e\":\"Random\",\"u\":");
	bits(u);
	fprintf(out, ",\"res\":");
	bits(rb);
	fprintf(out, ",\"others_same\":%d,\"own_changed\":%d}\n", others_same(), own_changed());
}
static void on_sig(int s)
{
	fprintf(out, "{\"e\":\"Crash\",\"sig\":%d}\n", s);
	fflush(out);
	_exit(0);
}
int main(int argc, char **argv)
{
	if(argc < 4)
		return 2;
	out = fopen(argv[1], "w");
	uint64_t seed = strtoull(argv[2], NULL, 10);
	int nseq = atoi(argv[3]);
	signal(SIGSEGV, on_sig);
	signal(SIGFPE, on_sig);
	signal(SIGALRM, on_sig);
	alarm(60);
	global_config.prng_seed = seed;
	global_config.lps = 3;
	lps = fake;
	for(int i = 0; i < 3; ++i) {
		fake[i].rng_ctx = &rng[i];
		random_lib_lp_init((lp_id_t)i, &rng[i]);
	}
	current_lp = &fake[0];
	/* class representatives: 0, 1, every power of two and its neighbours, all ones, mantissa boundaries */
	one_random(0);
	one_random(1);
	one_random(~0ULL);
	for(int k = 1; k < 64; ++k) {
		uint64_t p = 1ULL << k;
		one_random(p);
		one_random(p - 1);
		one_random(p + 1);
		one_random(p | (p >> 1));
		one_random((p << 1) - 1 - (k > 12 ? (1ULL << (k - 12)) : 0));
		one_random(p | 0x800ULL);
		one_random(p | 0xFFFULL);
	}
	for(int i = 0; i < nseq; ++i) {
		/* sequential states: whatever the generator produces next */
		uint64_t st[4];
		memcpy(st, rng[0].state, sizeof(st));
		uint64_t u = random_u64(st);
		before();
		double r = Random();
		uint64_t rb;
		memcpy(&rb, &r, 8);
		fprintf(out, "{\"e\":\"Random\",\"u\":");
		bits(u);
		fprintf(out, ",\"res\":");
		bits(rb);
		fprintf(out, ",\"others_same\":%d,\"own_changed\":%d}\n", others_same(), own_changed());
	}
	/* derived distributions, crafted extremes first (raw outputs 0, 1, all ones), then sequential */
	static const uint64_t ext[] = {0, 1, ~0ULL, 1ULL << 63, (1ULL << 63) - 1, 0xFFFULL, 1ULL << 11};
	for(int i = 0; i < nseq + 7 * 4; ++i) {
		if(i < 7 * 4)
			craft(ext[i % 7]);
		int max = (int)((unsigned)(rng[1].state[0] >> 3) % 2000000000U), min = (int)((unsigned)(rng[1].state[1] >> 5) % (unsigned)(max + 1));
		if(i % 5 == 0) {
			min = 0;
			max = (i % 2) ? 0 : 2147483646;
		}
		int x = (int)((unsigned)(rng[1].state[2] >> 7) % 2147483647U);
		before();
		int r = RandomRange(min, max);
		fprintf(out, "{\"e\":\"Range\",\"fn\":\"RandomRange\",\"min\":%d,\"max\":%d,\"r\":%d,\"others_same\":%d}\n", min, max, r, others_same());
		before();
		r = RandomRangeNonUniform(x, min, max);
		fprintf(out, "{\"e\":\"Range\",\"fn\":\"RandomRangeNonUniform\",\"min\":%d,\"max\":%d,\"r\":%d,\"others_same\":%d}\n", min, max, r, others_same());
		if(i < 7 * 4)
			craft(ext[(i + 3) % 7]);
		before();
		double d = Expent(1.0 + (i % 7));
		fprintf(out, "{\"e\":\"Real\",\"fn\":\"Expent\",\"finite\":%d,\"nonneg\":%d,\"others_same\":%d}\n", isfinite(d) ? 1 : 0, d >= 0, others_same());
		if(i < 7 * 4)
			craft(ext[(i + 5) % 7]);
		before();
		d = Gamma(1 + (unsigned)(i % 11));
		fprintf(out, "{\"e\":\"Real\",\"fn\":\"Gamma\",\"finite\":%d,\"nonneg\":%d,\"others_same\":%d}\n", isfinite(d) ? 1 : 0, d >= 0, others_same());
		before();
		unsigned lim = 1 + (unsigned)(i % 40);
		unsigned z = Zipf(1.2 + (i % 3), lim);
		fprintf(out, "{\"e\":\"Range\",\"fn\":\"Zipf\",\"min\":1,\"max\":%u,\"r\":%u,\"others_same\":%d}\n", lim, z, others_same());
		before();
		d = Normal();
		fprintf(out, "{\"e\":\"Real\",\"fn\":\"Normal\",\"finite\":%d,\"nonneg\":1,\"others_same\":%d}\n", isfinite(d) ? 1 : 0, others_same());
		/* let the other LPs' generators move too, so that isolation is tested in both directions */
		current_lp = &fake[1 + i % 2];
		(void)Random();
		current_lp = &fake[0];
	}
	/* every derived function on every crafted raw output: 0, 1, all ones and its neighbour, 2^k and the neighbours of every exponent
	 * boundary (the first draw of the function sees the crafted value) */
	{
		uint64_t cv[200];
		int nc = 0;
		cv[nc++] = 0, cv[nc++] = 1, cv[nc++] = ~0ULL, cv[nc++] = ~0ULL - 1;
		for(int k = 1; k < 64; ++k) {
			cv[nc++] = (1ULL << k) - 1;
			cv[nc++] = 1ULL << k;
			cv[nc++] = (1ULL << k) + 1;
		}
		for(int c = 0; c < nc; ++c) {
			static const int rng_lo[] = {0, -5, 100, 0}, rng_hi[] = {9, 5, 1000000, 2147483646};
			for(int j = 0; j < 4; ++j) {
				craft(cv[c]);
				before();
				int r = RandomRange(rng_lo[j], rng_hi[j]);
				fprintf(out, "{\"e\":\"Range\",\"fn\":\"RandomRange\",\"min\":%d,\"max\":%d,\"r\":%d,\"others_same\":%d}\n", rng_lo[j], rng_hi[j], r, others_same());
			}
			for(int j = 0; j < 3; ++j) {
				craft(cv[c]);
				before();
				int r = RandomRangeNonUniform(3 + j * 1000, 0, 50 + j * 100000);
				fprintf(out, "{\"e\":\"Range\",\"fn\":\"RandomRangeNonUniform\",\"min\":0,\"max\":%d,\"r\":%d,\"others_same\":%d}\n", 50 + j * 100000, r, others_same());
			}
			for(int j = 0; j < 2; ++j) {
				craft(cv[c]);
				before();
				double d = Expent(j ? 3.5 : 1.0);
				fprintf(out, "{\"e\":\"Real\",\"fn\":\"Expent\",\"finite\":%d,\"nonneg\":%d,\"others_same\":%d}\n", isfinite(d) ? 1 : 0, d >= 0, others_same());
			}
			for(unsigned ia = 1; ia <= 12; ia += (ia < 6 ? 1 : 3)) {
				craft(cv[c]);
				before();
				double d = Gamma(ia);
				fprintf(out, "{\"e\":\"Real\",\"fn\":\"Gamma\",\"finite\":%d,\"nonneg\":%d,\"others_same\":%d}\n", isfinite(d) ? 1 : 0, d >= 0, others_same());
			}
			static const double skews[] = {1.01, 1.2, 2.0, 3.5};
			static const unsigned lims[] = {1, 7, 1000, 2000000000U};
			for(int j = 0; j < 4; ++j)
				for(int q = 0; q < 4; q += 3 - (j & 1)) {
					craft(cv[c]);
					before();
					unsigned z = Zipf(skews[j], lims[q]);
					fprintf(out, "{\"e\":\"Range\",\"fn\":\"Zipf\",\"min\":1,\"max\":%u,\"r\":%u,\"others_same\":%d}\n", lims[q], z, others_same());
				}
			craft(cv[c]);
			before();
			double d = Normal();
			fprintf(out, "{\"e\":\"Real\",\"fn\":\"Normal\",\"finite\":%d,\"nonneg\":1,\"others_same\":%d}\n", isfinite(d) ? 1 : 0, others_same());
		}
	}
	fprintf(out, "{\"e\":\"End\"}\n");
	fclose(out);
	return 0;
}
