/* fakempi - in-process stand-in for MPI, driven by the cooperative scheduler (one logical thread runs
 * at a time, so no locking).  Semantics kept: non-overtaking per (sender thread, destination rank);
 * nothing else: messages of different sender threads are delivered in any order, a probe may answer
 * "nothing" although messages are in flight, non-blocking collectives complete some time after every
 * rank has posted them.  Every send/receive is logged (NetSend/NetRecv). */
#define _GNU_SOURCE
#include "fakempi/mpi.h"
#include "vsched.h"

#include <lp/msg.h>
#include <distributed/control_msg.h>

#include <stdio.h>
#include <stdlib.h>
#include <string.h>

extern FILE *out;
extern unsigned long seqno;
int thr_tag[64]; /* logical scheduler thread -> global thread id used in the trace (set by the rank hooks) */

#define MAXR 3
#define MAXSTREAM 64
struct fm_msg {
	struct fm_msg *next;
	int size, tag, src_rank, src_thr;
	long nm;
	unsigned char data[];
};
static struct {
	struct fm_msg *head, *tail;
} stream[MAXSTREAM][MAXR]; /* [sender logical thread][destination rank] */
static int n_ranks, net_mode;
static long next_nm = 1;
static int miss_budget[64];

struct fm_req {
	int type, rank;
	long inst;
	void *recv;
};
#define MAXINST 4096
static struct {
	int posted;
	uint32_t sum_in[MAXR][MAXR];
	double min_in[MAXR];
	int delay, consumed;
} coll[2][MAXINST];
static long coll_next[2][MAXR];
static long barrier_gen, barrier_cnt;

extern long tw_mid_of(const void *p);
static int my_thr(void) { return thr_tag[vs_self()]; }

void fm_init(int ranks, unsigned long seed, int mode)
{
	(void)seed;
	n_ranks = ranks;
	net_mode = mode;
}
void fm_set_rank(int r) { vs_set_group(r); }
static int my_rank(void) { return vs_group(); }

int MPI_Init_thread(int *a, char ***b, int req, int *prov)
{
	(void)a, (void)b;
	*prov = req;
	return 0;
}
int MPI_Finalize(void) { return 0; }
int MPI_Comm_rank(MPI_Comm c, int *r)
{
	(void)c;
	*r = my_rank();
	return 0;
}
int MPI_Comm_size(MPI_Comm c, int *s)
{
	(void)c;
	*s = n_ranks;
	return 0;
}
int MPI_Comm_create_errhandler(MPI_Comm_errhandler_function *f, MPI_Errhandler *e)
{
	(void)f;
	*e = 1;
	return 0;
}
int MPI_Comm_set_errhandler(MPI_Comm c, MPI_Errhandler e) { (void)c, (void)e; return 0; }
int MPI_Comm_get_errhandler(MPI_Comm c, MPI_Errhandler *e) { (void)c; *e = 1; return 0; }
int MPI_Errhandler_free(MPI_Errhandler *e) { *e = 0; return 0; }
int MPI_Error_string(int c, char *s, int *l) { (void)c; s[0] = 0; *l = 0; return 0; }
int MPI_Request_free(MPI_Request *r) { *r = MPI_REQUEST_NULL; return 0; }

static long t2l(double t) { return t >= 1e300 ? 1073741824L : (long)t; }

int MPI_Isend(const void *buf, int size, MPI_Datatype dt, int dest, int tag, MPI_Comm c, MPI_Request *req)
{
	(void)dt, (void)c;
	struct fm_msg *m = malloc(sizeof(*m) + (size_t)size);
	m->next = NULL;
	m->size = size;
	m->tag = tag;
	m->src_rank = my_rank();
	m->src_thr = my_thr();
	m->nm = next_nm++;
	memcpy(m->data, buf, (size_t)size); /* eager copy */
	int st = vs_self();
	if(stream[st][dest].tail)
		stream[st][dest].tail->next = m;
	else
		stream[st][dest].head = m;
	stream[st][dest].tail = m;
	/* classify like mpi_remote_msg_handle does: by size */
	const char *kind = "ev";
	long t = -1, id = 0, sq = 0, code = 0, mid = 0;
	if(tag == 0) {
		if(size == (int)sizeof(enum msg_ctrl_code)) {
			kind = "ctrl";
			code = *(const int *)buf;
		} else {
			const struct lp_msg *lm = (const struct lp_msg *)((const char *)buf - msg_preamble_size());
			t = t2l(lm->dest_t);
			id = (long)lm->raw_flags;
			sq = (long)lm->m_seq;
			mid = tw_mid_of(lm); /* the sender's buffer: for an anti-message the buffer of the send being cancelled */
			if(size <= (int)msg_remote_anti_size())
				kind = "anti";
		}
	} else {
		kind = "data";
	}
	fprintf(out, "{\"n\":%lu,\"thr\":%d,\"e\":\"NetSend\",\"nm\":%ld,\"kind\":\"%s\",\"dst\":%d,\"t\":%ld,\"id\":%ld,\"sq\":%ld,\"code\":%ld,\"sz\":%d,\"m\":%ld}\n", ++seqno,
	    my_thr(), m->nm, kind, dest, t, id, sq, code, size, mid);
	if(req)
		*req = MPI_REQUEST_NULL;
	vs_yield(100, 1); /* observation point "a message entered the network" (a shared access for guided replays) */
	return 0;
}
int MPI_Send(const void *buf, int size, MPI_Datatype dt, int dest, int tag, MPI_Comm c)
{
	return MPI_Isend(buf, size, dt, dest, tag, c, NULL);
}

static struct fm_msg *take(int rank, int tag, int src)
{
	int cand[MAXSTREAM], n = 0;
	for(int s = 0; s < MAXSTREAM; ++s) {
		struct fm_msg *h = stream[s][rank].head;
		if(h && h->tag == tag && (src == MPI_ANY_SOURCE || h->src_rank == src))
			cand[n++] = s;
	}
	if(!n)
		return NULL;
	int s = cand[vs_random() % (unsigned)n];
	struct fm_msg *m = stream[s][rank].head;
	stream[s][rank].head = m->next;
	if(!m->next)
		stream[s][rank].tail = NULL;
	return m;
}

int MPI_Improbe(int src, int tag, MPI_Comm c, int *flag, MPI_Message *msg, MPI_Status *st)
{
	(void)c;
	vs_yield(0, 21);
	int me = vs_self();
	/* following a behaviour of the specification: a message is seen by the probe only when the behaviour says that this thread
	 * receives now; until then it is still "in flight" */
	int ge = vs_guide_expect();
	if(ge >= 0 && ge != 101 && tag == 0) {
		*flag = 0;
		return 0;
	}
	/* a probe may miss messages that are still "in flight" (bounded so that progress is guaranteed) */
	if(net_mode != 1 && miss_budget[me] < 3 && (vs_random() % 3) == 0) {
		miss_budget[me]++;
		*flag = 0;
		return 0;
	}
	struct fm_msg *m = take(my_rank(), tag, src);
	if(!m) {
		*flag = 0;
		return 0;
	}
	miss_budget[me] = 0;
	*flag = 1;
	*msg = m;
	st->MPI_SOURCE = m->src_rank;
	st->MPI_TAG = m->tag;
	st->count = m->size;
	return 0;
}
static int data_ready(void *arg)
{
	int *a = arg;
	for(int s = 0; s < MAXSTREAM; ++s) {
		struct fm_msg *h = stream[s][a[0]].head;
		if(h && h->tag == a[1] && (a[2] == MPI_ANY_SOURCE || h->src_rank == a[2]))
			return 1;
	}
	return 0;
}
int MPI_Mprobe(int src, int tag, MPI_Comm c, MPI_Message *msg, MPI_Status *st)
{
	(void)c;
	int a[3] = {my_rank(), tag, src};
	vs_block_until(data_ready, a);
	struct fm_msg *m = take(my_rank(), tag, src);
	*msg = m;
	st->MPI_SOURCE = m->src_rank;
	st->MPI_TAG = m->tag;
	st->count = m->size;
	return 0;
}
int MPI_Mrecv(void *buf, int size, MPI_Datatype dt, MPI_Message *msg, MPI_Status *st)
{
	(void)dt, (void)st;
	struct fm_msg *m = *msg;
	memcpy(buf, m->data, (size_t)(size < m->size ? size : m->size));
	fprintf(out, "{\"n\":%lu,\"thr\":%d,\"e\":\"NetRecv\",\"nm\":%ld,\"from\":%d}\n", ++seqno, my_thr(), m->nm, m->src_thr);
	free(m);
	*msg = NULL;
	vs_yield(101, 1); /* observation point "a message left the network" */
	return 0;
}
int MPI_Get_count(const MPI_Status *st, MPI_Datatype dt, int *count)
{
	(void)dt;
	*count = st->count;
	return 0;
}

static MPI_Request post(int type, void *recv)
{
	int r = my_rank();
	long inst = coll_next[type][r]++;
	if(inst >= MAXINST) {
		fprintf(stderr, "fakempi: too many collectives\n");
		abort();
	}
	struct fm_req *q = malloc(sizeof(*q));
	q->type = type;
	q->rank = r;
	q->inst = inst;
	q->recv = recv;
	coll[type][inst % MAXINST].posted++;
	fprintf(out, "{\"n\":%lu,\"thr\":%d,\"e\":\"CollPost\",\"type\":%d,\"inst\":%ld}\n", ++seqno, my_thr(), type, inst);
	return q;
}
int MPI_Ireduce_scatter_block(const void *send, void *recv, int count, MPI_Datatype dt, MPI_Op op, MPI_Comm c, MPI_Request *req)
{
	(void)count, (void)dt, (void)op, (void)c;
	int r = my_rank();
	long inst = coll_next[0][r];
	memcpy(coll[0][inst % MAXINST].sum_in[r], send, sizeof(uint32_t) * (size_t)n_ranks);
	*req = post(0, recv);
	return 0;
}
int MPI_Iallreduce(const void *send, void *recv, int count, MPI_Datatype dt, MPI_Op op, MPI_Comm c, MPI_Request *req)
{
	(void)count, (void)dt, (void)op, (void)c;
	int r = my_rank();
	long inst = coll_next[1][r];
	coll[1][inst % MAXINST].min_in[r] = *(const double *)send;
	*req = post(1, recv);
	return 0;
}
int MPI_Test(MPI_Request *req, int *flag, MPI_Status *st)
{
	(void)st;
	vs_yield(0, 22);
	struct fm_req *q = *req;
	*flag = 0;
	if(!q)
		return 0;
	int type = q->type;
	long i = q->inst % MAXINST;
	if(coll[type][i].posted < n_ranks)
		return 0;
	/* complete some time after the last rank posted */
	if(net_mode != 1 && (vs_random() % 2) == 0 && coll[type][i].delay < 4 * n_ranks) {
		coll[type][i].delay++;
		return 0;
	}
	if(type == 0) {
		uint32_t s = 0;
		for(int k = 0; k < n_ranks; ++k)
			s += coll[0][i].sum_in[k][q->rank];
		*(uint32_t *)q->recv = s;
	} else {
		double m = coll[1][i].min_in[0];
		for(int k = 1; k < n_ranks; ++k)
			if(coll[1][i].min_in[k] < m)
				m = coll[1][i].min_in[k];
		*(double *)q->recv = m;
	}
	fprintf(out, "{\"n\":%lu,\"thr\":%d,\"e\":\"CollDone\",\"type\":%d,\"inst\":%ld}\n", ++seqno, my_thr(), type, q->inst);
	/* the slot is recycled once every rank has consumed the result */
	if(++coll[type][i].consumed == n_ranks)
		memset(&coll[type][i], 0, sizeof(coll[type][i]));
	free(q);
	*req = MPI_REQUEST_NULL;
	*flag = 1;
	return 0;
}
static int barrier_open(void *arg) { return barrier_gen != *(long *)arg; }
int MPI_Barrier(MPI_Comm c)
{
	(void)c;
	long g = barrier_gen;
	if(++barrier_cnt == n_ranks) {
		barrier_cnt = 0;
		barrier_gen++;
		return 0;
	}
	vs_block_until(barrier_open, &g);
	return 0;
}
