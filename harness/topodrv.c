/* topodrv - queries the real topology library for every geometry / size / region / direction.  C19 */
#define _GNU_SOURCE
#include <ROOT-Sim.h>
#include <core/core.h>
#include <lib/random/random.h>
#include <lp/lp.h>
#include <verif/hooks.h>

#include <pthread.h>
#include <signal.h>
#include <stdio.h>
#include <stdlib.h>
#include <string.h>

unsigned verif_batch(unsigned d) { return d; }
void verif_hook(unsigned p, uint64_t a, uint64_t b, uint64_t c, uint64_t d) { (void)p, (void)a, (void)b, (void)c, (void)d; }

static FILE *out;
static struct lp_ctx fake[3];
static struct rng_ctx rng[3];
static long R(lp_id_t v) { return v == INVALID_DIRECTION ? -1 : (long)v; }
static void use_lp(int i) { current_lp = &fake[i]; }

static void one_region(int g, unsigned w, unsigned h, unsigned n, struct topology *t, lp_id_t from, int K)
{
	fprintf(out, "{\"e\":\"Topo\",\"g\":%d,\"w\":%u,\"h\":%u,\"n\":%u,\"from\":%d,\"recv\":[", g, w, h, n, (int)from);
	lp_id_t rv[8];
	for(int d = 0; d < 8; ++d) {
		/* star / mesh / graph print an error for fixed directions: they are documented to accept RANDOM only */
		rv[d] = (g >= 6) ? INVALID_DIRECTION : GetReceiver(from, t, (enum topology_direction)d);
		fprintf(out, "%s%ld", d ? "," : "", R(rv[d]));
	}
	fprintf(out, "],\"isn\":[");
	for(int d = 0; d < 8; ++d)
		fprintf(out, "%s%d", d ? "," : "", rv[d] != INVALID_DIRECTION && rv[d] < n ? (int)IsNeighbor(from, rv[d], t) : 0);
	fprintf(out, "],\"cnt\":%ld,\"isnall\":[", (long)CountDirections(from, t));
	for(unsigned to = 0; to < n; ++to)
		fprintf(out, "%s%d", to ? "," : "", (int)IsNeighbor(from, to, t));
	fprintf(out, "],\"rnd\":[");
	use_lp(0);
	lp_id_t rr[32];
	for(int k = 0; k < K; ++k) {
		rr[k] = GetReceiver(from, t, DIRECTION_RANDOM);
		fprintf(out, "%s%ld", k ? "," : "", R(rr[k]));
	}
	fprintf(out, "],\"rndisn\":[");
	for(int k = 0; k < K; ++k)
		fprintf(out, "%s%d", k ? "," : "", rr[k] != INVALID_DIRECTION && rr[k] < n ? (int)IsNeighbor(from, rr[k], t) : 0);
	/* purity: same generator state of the calling LP => same answer, whatever happened in between */
	struct rng_ctx saved = rng[0];
	lp_id_t r1 = GetReceiver(from, t, DIRECTION_RANDOM);
	use_lp(1);
	for(unsigned q = 0; q < 3; ++q)
		(void)GetReceiver((from + 1 + q) % n, t, DIRECTION_RANDOM);
	use_lp(0);
	rng[0] = saved;
	lp_id_t r2 = GetReceiver(from, t, DIRECTION_RANDOM);
	fprintf(out, "],\"pure\":[%ld,%ld]}\n", R(r1), R(r2));
}

static void on_sig(int s)
{
	fprintf(out, "{\"e\":\"Crash\",\"sig\":%d}\n", s);
	fflush(out);
	_exit(0);
}

/* truly concurrent queries: NT threads, one LP (generator) each, the same topology object; every thread's sequence of random neighbours
 * must be the one the same generator state yields when the thread runs alone (purity: no state shared between the calls of different LPs) */
#define NT 4
#define NCALLS 60000
static struct lp_ctx cfake[NT];
static struct rng_ctx crng[NT];
static struct topology *ctopo;
static lp_id_t cres[NT][NCALLS];
static unsigned cn;
static pthread_barrier_t cbar;
static void *conc_thread(void *arg)
{
	int me = (int)(intptr_t)arg;
	current_lp = &cfake[me];
	pthread_barrier_wait(&cbar);
	for(int k = 0; k < NCALLS; ++k)
		cres[me][k] = GetReceiver((lp_id_t)((unsigned)(k * 7 + me) % cn), ctopo, DIRECTION_RANDOM);
	return NULL;
}
static void concurrent_part(int g, unsigned w, unsigned h)
{
	static lp_id_t ref[NT][NCALLS];
	ctopo = InitializeTopology((enum topology_geometry)g, h, w);
	cn = w * h;
	for(int i = 0; i < NT; ++i) {
		cfake[i].rng_ctx = &crng[i];
		random_lib_lp_init((lp_id_t)(100 + i), &crng[i]);
	}
	for(int i = 0; i < NT; ++i) { /* alone */
		current_lp = &cfake[i];
		for(int k = 0; k < NCALLS; ++k)
			ref[i][k] = GetReceiver((lp_id_t)((unsigned)(k * 7 + i) % cn), ctopo, DIRECTION_RANDOM);
	}
	for(int i = 0; i < NT; ++i)
		random_lib_lp_init((lp_id_t)(100 + i), &crng[i]);
	pthread_barrier_init(&cbar, NULL, NT);
	pthread_t th[NT];
	for(int i = 0; i < NT; ++i)
		pthread_create(&th[i], NULL, conc_thread, (void *)(intptr_t)i);
	long mism = 0, invalid = 0;
	for(int i = 0; i < NT; ++i)
		pthread_join(th[i], NULL);
	for(int i = 0; i < NT; ++i)
		for(int k = 0; k < NCALLS; ++k) {
			mism += cres[i][k] != ref[i][k];
			invalid += cres[i][k] == INVALID_DIRECTION && ref[i][k] != INVALID_DIRECTION;
		}
	fprintf(out, "{\"e\":\"Conc\",\"g\":%d,\"w\":%u,\"h\":%u,\"threads\":%d,\"calls\":%d,\"mismatch\":%ld,\"invalid\":%ld}\n", g, w, h, NT, NCALLS, mism, invalid);
	ReleaseTopology(ctopo);
	current_lp = &fake[0];
}

int main(int argc, char **argv)
{
	if(argc < 4)
		return 2;
	out = fopen(argv[1], "w");
	unsigned maxd = (unsigned)atoi(argv[2]);
	int K = atoi(argv[3]);
	signal(SIGSEGV, on_sig);
	signal(SIGFPE, on_sig);
	signal(SIGABRT, on_sig);
	global_config.prng_seed = 4242;
	global_config.lps = 3;
	lps = fake;
	for(int i = 0; i < 3; ++i) {
		fake[i].rng_ctx = &rng[i];
		random_lib_lp_init((lp_id_t)i, &rng[i]);
	}
	FILE *devnull = freopen("/dev/null", "w", stderr);
	(void)devnull;
	for(int g = 1; g <= 3; ++g)
		for(unsigned h = 1; h <= maxd; ++h)
			for(unsigned w = 1; w <= maxd; ++w) {
				struct topology *t = InitializeTopology((enum topology_geometry)g, h, w);
				for(lp_id_t f = 0; f < (lp_id_t)w * h; ++f)
					one_region(g, w, h, w * h, t, f, K);
				ReleaseTopology(t);
			}
	for(int g = 4; g <= 7; ++g)
		for(unsigned n = 1; n <= maxd * 2; ++n) {
			struct topology *t = InitializeTopology((enum topology_geometry)g, n);
			for(lp_id_t f = 0; f < n; ++f)
				one_region(g, 0, 0, n, t, f, K);
			ReleaseTopology(t);
		}
	/* graph topologies: every set of links over 2 and 3 regions (self links included) */
	for(unsigned n = 2; n <= 3; ++n) {
		unsigned pairs = n * n;
		for(unsigned mask = 0; mask < (1U << pairs); ++mask) {
			struct topology *t = InitializeTopology(TOPOLOGY_GRAPH, n);
			unsigned cntl[3] = {0};
			for(unsigned p = 0; p < pairs; ++p)
				if(mask & (1U << p))
					cntl[p / n]++;
			for(unsigned p = 0; p < pairs; ++p)
				if(mask & (1U << p))
					AddTopologyLink(t, p / n, p % n, 1.0 / cntl[p / n]);
			for(lp_id_t f = 0; f < n; ++f) {
				fprintf(out, "{\"e\":\"Graph\",\"n\":%u,\"from\":%d,\"links\":[", n, (int)f);
				int first = 1;
				for(unsigned p = 0; p < pairs; ++p)
					if(mask & (1U << p)) {
						fprintf(out, "%s[%u,%u]", first ? "" : ",", p / n, p % n);
						first = 0;
					}
				fprintf(out, "],\"cnt\":%ld,\"isnall\":[", (long)CountDirections(f, t));
				for(unsigned to = 0; to < n; ++to)
					fprintf(out, "%s%d", to ? "," : "", (int)IsNeighbor(f, to, t));
				fprintf(out, "],\"rnd\":[");
				use_lp(0);
				for(int k = 0; k < K; ++k)
					fprintf(out, "%s%ld", k ? "," : "", R(GetReceiver(f, t, DIRECTION_RANDOM)));
				struct rng_ctx saved = rng[0];
				lp_id_t r1 = GetReceiver(f, t, DIRECTION_RANDOM);
				use_lp(1);
				(void)GetReceiver((f + 1) % n, t, DIRECTION_RANDOM);
				use_lp(0);
				rng[0] = saved;
				lp_id_t r2 = GetReceiver(f, t, DIRECTION_RANDOM);
				fprintf(out, "],\"pure\":[%ld,%ld]}\n", R(r1), R(r2));
			}
			ReleaseTopology(t);
		}
	}
	for(int g = 1; g <= 3; ++g)
		concurrent_part(g, 4, 5);
	fclose(out);
	return 0;
}
