/* partdrv - runs the real LP set-up (lp_global_init, lp_init, lp_fini) for every (LPs, ranks, threads) triple up to a
 * bound, every rank and every worker of the rank, and records what can be observed from outside: which worker
 * dispatches LP_INIT / LP_FINI of which LP, the range the rank claims, and where the routing functions
 * (lid_to_nid, lid_to_rid - the ones ScheduleNewEvent and msg_queue_insert use) send the events of each LP.  C14 */
#define _GNU_SOURCE
#include <core/core.h>
#include <datatypes/msg_queue.h>
#include <gvt/termination.h>
#include <lp/lp.h>
#include <mm/auto_ckpt.h>
#include <mm/msg_allocator.h>

#include <stdio.h>
#include <stdlib.h>
#include <string.h>

unsigned verif_batch(unsigned d) { return d; }
void verif_hook(unsigned p, uint64_t a, uint64_t b, uint64_t c, uint64_t d) { (void)p, (void)a, (void)b, (void)c, (void)d; }

#define MAXL 4096
static int init_by[MAXL], fini_by[MAXL], init_cnt[MAXL], fini_cnt[MAXL];

static void dispatcher(lp_id_t me, simtime_t now, unsigned t, const void *c, unsigned s, void *st)
{
	(void)now, (void)c, (void)s, (void)st;
	if(me >= MAXL)
		return;
	if(t == LP_INIT) {
		init_by[me] = (int)rid;
		++init_cnt[me];
	} else if(t == LP_FINI) {
		fini_by[me] = (int)rid;
		++fini_cnt[me];
	}
}
static bool committed(lp_id_t me, const void *s)
{
	(void)me, (void)s;
	return false;
}

int main(int argc, char **argv)
{
	if(argc < 5)
		return 2;
	FILE *out = fopen(argv[1], "w");
	int maxL = atoi(argv[2]), maxN = atoi(argv[3]), maxT = atoi(argv[4]);
	int stride = argc > 5 ? atoi(argv[5]) : 1, off = argc > 6 ? atoi(argv[6]) : 0, idx = 0;
	global_config.log_level = LOG_SILENT;
	global_config.dispatcher = dispatcher;
	global_config.committed = committed;
	global_config.termination_time = 10;
	for(int L = 1; L <= maxL && L < MAXL; ++L)
		for(int N = 1; N <= maxN; ++N)
			for(int T = 1; T <= maxT; ++T) {
				if((idx++ % stride) != off)
					continue;
				for(int k = 0; k < N; ++k) {
					global_config.lps = (lp_id_t)L;
					global_config.n_threads = (unsigned)T;
					n_nodes = N;
					nid = k;
					lp_global_init(); /* sets lid_node_first, n_lps_node, clamps n_threads */
					msg_queue_global_init();
					termination_global_init();
					unsigned t = global_config.n_threads;
					for(int i = 0; i < L; ++i)
						init_by[i] = fini_by[i] = -1, init_cnt[i] = fini_cnt[i] = 0;
					uint64_t tf[64], te[64];
					/* one OS thread plays every worker of the rank in turn, as worker_thread_init / _fini do */
					for(unsigned r = 0; r < t && r < 64; ++r) {
						rid = r;
						auto_ckpt_init();
						msg_allocator_init();
						msg_queue_init();
						lp_init();
						tf[r] = lid_thread_first;
						te[r] = lid_thread_end;
						lp_fini();
						msg_queue_fini();
						msg_allocator_fini();
					}
					/* what an outside observer saw: per worker the LPs it initialised; they must be exactly the claimed
					 * range, each LP once, finalised by the same worker */
					int ok = 1;
					for(unsigned r = 0; r < t && r < 64; ++r)
						for(int i = 0; i < L; ++i) {
							bool in = (uint64_t)i >= tf[r] && (uint64_t)i < te[r];
							if(in != (init_by[i] == (int)r) || (in && (init_cnt[i] != 1 || fini_cnt[i] != 1 || fini_by[i] != (int)r)))
								ok = 0;
						}
					for(int i = 0; i < L; ++i) {
						bool mine = (uint64_t)i >= lid_node_first && (uint64_t)i < lid_node_first + n_lps_node;
						if(mine != (init_cnt[i] > 0))
							ok = 0;
					}
					fprintf(out, "{\"e\":\"Part\",\"L\":%d,\"N\":%d,\"T\":%d,\"nid\":%d,\"first\":%d,\"cnt\":%d,\"thr\":%u,\"obs\":%d,\"tf\":[", L, N, T, k,
					    (int)lid_node_first, (int)n_lps_node, t, ok);
					for(unsigned r = 0; r < t; ++r)
						fprintf(out, "%s%d", r ? "," : "", (int)tf[r]);
					fprintf(out, "],\"te\":[");
					for(unsigned r = 0; r < t; ++r)
						fprintf(out, "%s%d", r ? "," : "", (int)te[r]);
					fprintf(out, "],\"nidof\":[");
					for(int lp = 0; lp < L; ++lp)
						fprintf(out, "%s%d", lp ? "," : "", (int)lid_to_nid((lp_id_t)lp));
					fprintf(out, "],\"ridof\":[");
					for(lp_id_t i = 0; i < n_lps_node; ++i)
						fprintf(out, "%s%d", i ? "," : "", (int)lid_to_rid(lid_node_first + i));
					fprintf(out, "]}\n");
					msg_queue_global_fini();
					lp_global_fini();
				}
			}
	/* routing at scale (chunk 0 only): LP counts whose product with the thread count does not fit 32 bits cannot be set up for real
	 * (lp_init touches every LP); on ONE rank the rank's range is all identifiers by definition, so the routing function of the code
	 * is evaluated with lid_node_first = 0, n_lps_node = L at an ascending sample of identifiers (0, L-1, around every k*L/T, random):
	 * contiguous ownership ranges in thread order with routing = ownership and no idle thread imply that the values are
	 * non-decreasing, start at 0, end at T-1 and stay below T */
	if(off == 0) {
		static const struct { uint64_t L; unsigned T; } big[] = {{1000003ULL, 16}, {(1ULL << 26) + 1, 64}, {134230073ULL, 32},
		    {(1ULL << 28) + 7, 16}, {(1ULL << 31) + 11, 4}, {(1ULL << 32) + 1, 2}, {(1ULL << 33) + 5, 3}, {(1ULL << 30) - 1, 5}, {4294967ULL, 1000 % 61}};
		uint64_t x = 88172645463325252ULL;
		for(unsigned c = 0; c < sizeof(big) / sizeof(*big); ++c) {
			uint64_t L = big[c].L, ids[200];
			unsigned T = big[c].T, n = 0;
			global_config.lps = L;
			global_config.n_threads = T;
			n_nodes = 1;
			nid = 0;
			lid_node_first = 0;
			n_lps_node = L;
			ids[n++] = 0;
			ids[n++] = L - 1;
			for(unsigned k = 1; k < T && n + 3 < 150; ++k) {
				uint64_t g = (uint64_t)(((__uint128_t)k * L) / T);
				ids[n++] = g > 0 ? g - 1 : 0;
				ids[n++] = g;
				ids[n++] = g + 1 < L ? g + 1 : L - 1;
			}
			while(n < 200) {
				x ^= x << 13, x ^= x >> 7, x ^= x << 17;
				ids[n++] = x % L;
			}
			for(unsigned i = 1; i < n; ++i) /* insertion sort */
				for(unsigned j = i; j > 0 && ids[j - 1] > ids[j]; --j) {
					uint64_t t = ids[j];
					ids[j] = ids[j - 1], ids[j - 1] = t;
				}
			fprintf(out, "{\"e\":\"PartBig\",\"Lhi\":%u,\"Llo\":%u,\"T\":%u,\"rid\":[", (unsigned)(L >> 20), (unsigned)(L & 0xfffff), T);
			for(unsigned i = 0; i < n; ++i)
				fprintf(out, "%s%lld", i ? "," : "", (long long)lid_to_rid(ids[i]));
			fprintf(out, "]}\n");
		}
	}
	fclose(out);
	return 0;
}
