/* partdrv - runs the real LP set-up (lp_global_init, lp_init, lp_fini) for every (LPs, ranks, threads) triple up to a
 * bound, every rank and every worker of the rank, and records what can be observed from outside: which worker
 * dispatches LP_INIT / LP_FINI of which LP, the range the rank claims, and where the routing functions
 * (lid_to_nid, lid_to_rid - the ones ScheduleNewEvent and msg_queue_insert use) send the events of each LP.  C14 */
#define _GNU_SOURCE
#include <core/core.h>
#include <datatypes/msg_queue.h>
#include <gvt/termination.h>
#include <lp/lp.h>
#include <mm/auto_ckpt.h>
#include <mm/msg_allocator.h>

#include <stdio.h>
#include <stdlib.h>
#include <string.h>

unsigned verif_batch(unsigned d) { return d; }
void verif_hook(unsigned p, uint64_t a, uint64_t b, uint64_t c, uint64_t d) { (void)p, (void)a, (void)b, (void)c, (void)d; }

#define MAXL 4096
static int init_by[MAXL], fini_by[MAXL], init_cnt[MAXL], fini_cnt[MAXL];

static void dispatcher(lp_id_t me, simtime_t now, unsigned t, const void *c, unsigned s, void *st)
{
	(void)now, (void)c, (void)s, (void)st;
	if(me >= MAXL)
		return;
	if(t == LP_INIT) {
		init_by[me] = (int)rid;
		++init_cnt[me];
	} else if(t == LP_FINI) {
		fini_by[me] = (int)rid;
		++fini_cnt[me];
	}
}
static bool committed(lp_id_t me, const void *s)
{
	(void)me, (void)s;
	return false;
}

int main(int argc, char **argv)
{
	if(argc < 5)
		return 2;
	FILE *out = fopen(argv[1], "w");
	int maxL = atoi(argv[2]), maxN = atoi(argv[3]), maxT = atoi(argv[4]);
	int stride = argc > 5 ? atoi(argv[5]) : 1, off = argc > 6 ? atoi(argv[6]) : 0, idx = 0;
	global_config.log_level = LOG_SILENT;
	global_config.dispatcher = dispatcher;
	global_config.committed = committed;
	global_config.termination_time = 10;
	for(int L = 1; L <= maxL && L < MAXL; ++L)
		for(int N = 1; N <= maxN; ++N)
			for(int T = 1; T <= maxT; ++T) {
				if((idx++ % stride) != off)
					continue;
				for(int k = 0; k < N; ++k) {
					global_config.lps = (lp_id_t)L;
					global_config.n_threads = (unsigned)T;
					n_nodes = N;
					nid = k;
					lp_global_init(); /* sets lid_node_first, n_lps_node, clamps n_threads */
					msg_queue_global_init();
					termination_global_init();
					unsigned t = global_config.n_threads;
					for(int i = 0; i < L; ++i)
						init_by[i] = fini_by[i] = -1, init_cnt[i] = fini_cnt[i] = 0;
					uint64_t tf[64], te[64];
					/* one OS thread plays every worker of the rank in turn, as worker_thread_init / _fini do */
					for(unsigned r = 0; r < t && r < 64; ++r) {
						rid = r;
						auto_ckpt_init();
						msg_allocator_init();
						msg_queue_init();
						lp_init();
						tf[r] = lid_thread_first;
						te[r] = lid_thread_end;
						lp_fini();
						msg_queue_fini();
						msg_allocator_fini();
					}
					/* what an outside observer saw: per worker the LPs it initialised; they must be exactly the claimed
					 * range, each LP once, finalised by the same worker */
					int ok = 1;
					for(unsigned r = 0; r < t && r < 64; ++r)
						for(int i = 0; i < L; ++i) {
							bool in = (uint64_t)i >= tf[r] && (uint64_t)i < te[r];
							if(in != (init_by[i] == (int)r) || (in && (init_cnt[i] != 1 || fini_cnt[i] != 1 || fini_by[i] != (int)r)))
								ok = 0;
						}
					for(int i = 0; i < L; ++i) {
						bool mine = (uint64_t)i >= lid_node_first && (uint64_t)i < lid_node_first + n_lps_node;
						if(mine != (init_cnt[i] > 0))
							ok = 0;
					}
					fprintf(out, "{\"e\":\"Part\",\"L\":%d,\"N\":%d,\"T\":%d,\"nid\":%d,\"first\":%d,\"cnt\":%d,\"thr\":%u,\"obs\":%d,\"tf\":[", L, N, T, k,
					    (int)lid_node_first, (int)n_lps_node, t, ok);
					for(unsigned r = 0; r < t; ++r)
						fprintf(out, "%s%d", r ? "," : "", (int)tf[r]);
					fprintf(out, "],\"te\":[");
					for(unsigned r = 0; r < t; ++r)
						fprintf(out, "%s%d", r ? "," : "", (int)te[r]);
					fprintf(out, "],\"nidof\":[");
					for(int lp = 0; lp < L; ++lp)
						fprintf(out, "%s%d", lp ? "," : "", (int)lid_to_nid((lp_id_t)lp));
					fprintf(out, "],\"ridof\":[");
					for(lp_id_t i = 0; i < n_lps_node; ++i)
						fprintf(out, "%s%d", i ? "," : "", (int)lid_to_rid(lid_node_first + i));
					fprintf(out, "]}\n");
					msg_queue_global_fini();
					lp_global_fini();
				}
			}
	fclose(out);
	return 0;
}
