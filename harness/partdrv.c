/* partdrv - evaluates the real partition arithmetic (lp_global_init, partition_start, lid_to_nid,
 * lid_to_rid) for every (LPs, ranks, threads) triple up to a bound and every rank.  C14 */
#define _GNU_SOURCE
#include <lp/lp.c>

#include <stdio.h>
#include <stdlib.h>

unsigned verif_batch(unsigned d) { return d; }
void verif_hook(unsigned p, uint64_t a, uint64_t b, uint64_t c, uint64_t d) { (void)p, (void)a, (void)b, (void)c, (void)d; }

int main(int argc, char **argv)
{
	if(argc < 5)
		return 2;
	FILE *out = fopen(argv[1], "w");
	int maxL = atoi(argv[2]), maxN = atoi(argv[3]), maxT = atoi(argv[4]);
	int stride = argc > 5 ? atoi(argv[5]) : 1, off = argc > 6 ? atoi(argv[6]) : 0, idx = 0;
	global_config.log_level = LOG_SILENT;
	for(int L = 1; L <= maxL; ++L)
		for(int N = 1; N <= maxN; ++N)
			for(int T = 1; T <= maxT; ++T) {
				if((idx++ % stride) != off)
					continue;
				for(int k = 0; k < N; ++k) {
					global_config.lps = (lp_id_t)L;
					global_config.n_threads = (unsigned)T;
					n_nodes = N;
					nid = k;
					lp_global_init(); /* the real one: sets lid_node_first, n_lps_node, clamps n_threads */
					unsigned t = global_config.n_threads;
					fprintf(out, "{\"e\":\"Part\",\"L\":%d,\"N\":%d,\"T\":%d,\"nid\":%d,\"first\":%d,\"cnt\":%d,\"thr\":%u,\"tf\":[", L, N, T, k,
					    (int)lid_node_first, (int)n_lps_node, t);
					for(unsigned r = 0; r < t; ++r) {
						rid = r; /* same expressions as lp_init() */
						uint64_t f = partition_start(rid, global_config.n_threads, lid_to_rid, lid_node_first, n_lps_node);
						fprintf(out, "%s%d", r ? "," : "", (int)f);
					}
					fprintf(out, "],\"te\":[");
					for(unsigned r = 0; r < t; ++r) {
						rid = r;
						uint64_t e = partition_start(rid + 1, global_config.n_threads, lid_to_rid, lid_node_first, n_lps_node);
						fprintf(out, "%s%d", r ? "," : "", (int)e);
					}
					fprintf(out, "],\"nidof\":[");
					for(int lp = 0; lp < L; ++lp)
						fprintf(out, "%s%d", lp ? "," : "", (int)lid_to_nid((lp_id_t)lp));
					fprintf(out, "],\"ridof\":[");
					for(lp_id_t i = 0; i < n_lps_node; ++i)
						fprintf(out, "%s%d", i ? "," : "", (int)lid_to_rid(lid_node_first + i));
					fprintf(out, "]}\n");
					lp_global_fini();
				}
			}
	fclose(out);
	return 0;
}
