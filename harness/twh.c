/* twh - Time Warp harness: runs the real ROOT-Sim core (built from /repo/src with -DROOTSIM_VERIF)
 * on a table-driven model, under the cooperative scheduler, and writes one ndjson line per
 * observation point.  The same table-driven model is given to TLC as JSON.
 */
#define _GNU_SOURCE
#include <ROOT-Sim.h>
#include <core/core.h>
#include <lp/lp.h>
#include <lp/msg.h>
#include <mm/buddy/buddy.h>
#include <mm/buddy/ckpt.h>
#include <mm/buddy/multi.h>
#include <verif/hooks.h>

#include "vsched.h"

#include <inttypes.h>
#include <math.h>
#include <signal.h>
#include <stdio.h>
#include <stdlib.h>
#include <string.h>
#include <pthread.h>
#include <sys/time.h>
#include <unistd.h>

#if !defined(TW_RANK_PART) && !defined(TW_SHARED_PART)
#define TW_RANK_PART
#define TW_SHARED_PART
#endif
#ifdef TW_SHARED_PART
#define SHARED
#else
#define SHARED extern
#endif

/* ------------------------------------------------------------------ model tables */
#define MAXLP 64
#define MAXK 16
#define MAXT 8
#define MAXD 8
#define MAXS 4
#define MAXP 16
#define NSLOT 6

struct send {
	int drule, drule2, delay, ty, pid;
};
struct outcome {
	int ns, nsends;
	struct send sends[MAXS];
};
struct trans {
	int draw, lib, mem;
	struct outcome out[MAXD];
};
SHARED struct model_tables {
	int nlps, K, T, P, split;
	int need[MAXLP], cap[MAXLP];
	int endmask[MAXK];
	int psize[MAXP];
	unsigned char pbytes[MAXP][256];
	int padd[MAXP];
	int ninit[MAXLP];
	struct send init[MAXLP][MAXS];
	struct trans tr[MAXK][MAXT + 1];
} M;

static void die(const char *m)
{
	fprintf(stderr, "twh: %s\n", m);
	fflush(NULL);
	_exit(2);
}

#ifdef TW_SHARED_PART
static int rdint(FILE *f)
{
	int v;
	if(fscanf(f, "%d", &v) != 1)
		die("model file truncated");
	return v;
}

static void model_load(const char *path)
{
	FILE *f = fopen(path, "r");
	if(!f)
		die("cannot open model");
	M.nlps = rdint(f);
	M.K = rdint(f);
	M.T = rdint(f);
	M.P = rdint(f);
	M.split = rdint(f);
	if(M.nlps > MAXLP || M.K > MAXK || M.T > MAXT || M.P > MAXP)
		die("model too large");
	for(int i = 0; i < M.nlps; ++i)
		M.need[i] = rdint(f);
	for(int i = 0; i < M.nlps; ++i)
		M.cap[i] = rdint(f);
	for(int i = 0; i < M.K; ++i)
		M.endmask[i] = rdint(f);
	for(int p = 0; p < M.P; ++p) {
		M.psize[p] = rdint(f);
		M.padd[p] = rdint(f);
		for(int j = 0; j < M.psize[p]; ++j)
			M.pbytes[p][j] = (unsigned char)rdint(f);
	}
	for(int i = 0; i < M.nlps; ++i) {
		M.ninit[i] = rdint(f);
		for(int j = 0; j < M.ninit[i]; ++j) {
			M.init[i][j].drule = rdint(f);
			M.init[i][j].drule2 = rdint(f);
			M.init[i][j].delay = rdint(f);
			M.init[i][j].ty = rdint(f);
			M.init[i][j].pid = rdint(f);
		}
	}
	for(int s = 0; s < M.K; ++s)
		for(int t = 1; t <= M.T; ++t) {
			struct trans *e = &M.tr[s][t];
			e->draw = rdint(f);
			e->lib = rdint(f);
			e->mem = rdint(f);
			int nd = e->draw > 0 ? e->draw : 1;
			for(int d = 0; d < nd; ++d) {
				e->out[d].ns = rdint(f);
				e->out[d].nsends = rdint(f);
				for(int j = 0; j < e->out[d].nsends; ++j) {
					e->out[d].sends[j].drule = rdint(f);
					e->out[d].sends[j].drule2 = rdint(f);
					e->out[d].sends[j].delay = rdint(f);
					e->out[d].sends[j].ty = rdint(f);
					e->out[d].sends[j].pid = rdint(f);
				}
			}
		}
	fclose(f);
}

#endif

static int pid_of(const void *pl, unsigned sz)
{
	for(int p = 0; p < M.P; ++p)
		if((unsigned)M.psize[p] == sz && (!sz || !memcmp(M.pbytes[p], pl, sz)))
			return p;
	return -1;
}

/* ------------------------------------------------------------------ trace output */
SHARED FILE *out;
SHARED unsigned long seqno;
SHARED int serial_mode;
SHARED int quiet_core; /* suppress core hook lines (serial reference runs keep only model lines) */
SHARED long stop_at;
SHARED int stop_lp, stop_cnt;
SHARED int dist_ranks; /* 0: single node */
SHARED int contract_bad;
SHARED int never_end;
/* --real: no cooperative scheduler, truly concurrent worker threads; nothing is traced (the trace writer is not thread safe), only the
 * final state of every LP is reported.  --freeze: an LP stops changing (and sending) once it has processed `need' events, so that the
 * state at LP_FINI is the state at which its predicate first held - the one C01 speaks about - whatever was executed speculatively later. */
SHARED int real_mode, freeze_mode;
SHARED struct fin_rec {
	int set, s, cnt, pred;
	long a, b;
} fin_recs[MAXLP];
SHARED unsigned long hook_count;
SHARED unsigned batch_size;

#define INF_T 1073741824L

static long t2i(double t)
{
	if(t >= 1e300)
		return INF_T;
	if(t < 0)
		return -1;
	long v = (long)t;
	if((double)v != t || v >= INF_T)
		die("non-integer or too large timestamp in trace");
	return v;
}

static long bits2i(uint64_t b)
{
	double d;
	memcpy(&d, &b, sizeof(d));
	return t2i(d);
}

#ifdef TW_RANK_PART
static int thr_id(void)
{
	return serial_mode ? 0 : (dist_ranks ? (int)nid * 8 + (int)rid : (int)rid);
}
#else
static int thr_id(void) { return -1; }
#endif
/* a run that keeps producing events (unbounded speculation, livelock) is cut like a run that exceeds its step budget */
static void trace_overflow(void)
{
	fprintf(out, "{\"n\":%lu,\"thr\":-1,\"e\":\"Hang\",\"why\":\"trace-cap lines=%lu\"}\n", seqno + 1, seqno);
	fflush(out);
	_exit(4);
}

SHARED unsigned long max_lines;
#define EMIT(...)                                                                                                      \
	do {                                                                                                           \
		if(max_lines && seqno >= max_lines)                                                                    \
			trace_overflow();                                                                              \
		fprintf(out, "{\"n\":%lu,\"thr\":%d,", ++seqno, thr_id());                                             \
		fprintf(out, __VA_ARGS__);                                                                             \
		fputs("}\n", out);                                                                                     \
	} while(0)

/* ------------------------------------------------------------------ message identities */
#define HT_SIZE (1U << 16)
SHARED struct mid_slot {
	uintptr_t p;
	long id;
} ht[HT_SIZE];
SHARED long next_mid;

static unsigned ht_slot(uintptr_t p)
{
	unsigned h = (unsigned)((p >> 4) * 2654435761U) & (HT_SIZE - 1);
	while(ht[h].p && ht[h].p != p)
		h = (h + 1) & (HT_SIZE - 1);
	return h;
}

static long mid_new(const void *p)
{
	unsigned h = ht_slot((uintptr_t)p);
	ht[h].p = (uintptr_t)p;
	ht[h].id = next_mid++;
	return ht[h].id;
}

static long mid_of(const void *p)
{
	if(!p)
		return 0;
	unsigned h = ht_slot((uintptr_t)p);
	return ht[h].p ? ht[h].id : -1;
}

#ifdef TW_RANK_PART
/* ------------------------------------------------------------------ model interpreter */
struct buf {
	uint32_t len;
	unsigned char data[];
};
struct lpst {
	uint32_t s, cnt, ndraw;
	uint64_t last, noise;
	struct buf *slot[NSLOT];
};

static __thread struct {
	int u16;
	int bad;
} last_disp;
static __thread int in_restore, silent_calls;

static uint64_t mix64(uint64_t x)
{
	x ^= x >> 33;
	x *= 0xff51afd7ed558ccdULL;
	x ^= x >> 33;
	x *= 0xc4ceb9fe1a85ec53ULL;
	x ^= x >> 33;
	return x;
}

#define FNV_INIT 1469598103934665603ULL
static uint64_t fnv(uint64_t h, const void *p, size_t n)
{
	const unsigned char *c = p;
	while(n--) {
		h ^= *c++;
		h *= 1099511628211ULL;
	}
	return h;
}

static const unsigned buf_sizes[] = {1, 24, 64, 65, 200, 1000, 4096, 20000, 40000, 65536};
#define NBS (sizeof(buf_sizes) / sizeof(*buf_sizes))



static void fill(struct buf *b, uint32_t from, uint64_t k)
{
	for(uint32_t i = from; i < b->len; ++i)
		b->data[i] = (unsigned char)(mix64(k + i / 8) >> (8 * (i % 8)));
}

static void mem_churn(struct lpst *st, uint64_t k, int op)
{
	int sl = (int)((k >> 8) % NSLOT);
	unsigned sz = buf_sizes[(k >> 16) % NBS];
	if(sz > 65536 - sizeof(struct buf))
		sz = 65536 - sizeof(struct buf);
	switch(op) {
		case 2:
		case 3: { /* allocate into an empty slot */
			for(int i = 0; i < NSLOT; ++i) {
				int j = (sl + i) % NSLOT;
				if(!st->slot[j]) {
					struct buf *b = op == 2 ? rs_malloc(sizeof(*b) + sz) : rs_calloc(1, sizeof(*b) + sz);
					if(!b) {
						contract_bad |= 1;
						return;
					}
					if(op == 3)
						for(unsigned q = 0; q < sz; ++q)
							if(b->data[q])
								contract_bad |= 2;
					b->len = sz;
					fill(b, 0, k);
					st->slot[j] = b;
					return;
				}
			}
			break;
		}
		case 4: /* free */
			if(st->slot[sl]) {
				rs_free(st->slot[sl]);
				st->slot[sl] = NULL;
			}
			break;
		case 5: /* realloc */
			if(st->slot[sl]) {
				uint32_t old = st->slot[sl]->len;
				uint64_t before = fnv(FNV_INIT, st->slot[sl]->data, old < sz ? old : sz);
				struct buf *b = rs_realloc(st->slot[sl], sizeof(*b) + sz);
				if(!b) {
					contract_bad |= 4;
					return;
				}
				if(fnv(FNV_INIT, b->data, old < sz ? old : sz) != before)
					contract_bad |= 8;
				b->len = sz;
				if(sz > old)
					fill(b, old, k);
				st->slot[sl] = b;
			}
			break;
		case 6: /* overwrite part of a buffer */
			if(st->slot[sl] && st->slot[sl]->len) {
				struct buf *b = st->slot[sl];
				uint32_t at = (uint32_t)((k >> 24) % b->len);
				uint32_t n = (uint32_t)((k >> 40) % 64);
				for(uint32_t i = at; i < b->len && i < at + n; ++i)
					b->data[i] ^= (unsigned char)(k >> (i % 56));
			}
			break;
		case 7: /* requests that must fail cleanly */
			if(rs_malloc(0) != NULL)
				contract_bad |= 16;
			if(rs_malloc(65537 + (k & 0xfff)) != NULL)
				contract_bad |= 32;
			break;
		default:
			break;
	}
}

static void lib_noise(struct lpst *st, int lib, uint64_t k)
{
	double r = 0;
	switch(lib) {
		case 1: {
			int lo = -(int)(k % 7), hi = (int)((k >> 8) % 9);
			int v = RandomRange(lo, hi);
			if(v < lo || v > hi)
				contract_bad |= 64;
			r = v;
			break;
		}
		case 2:
			r = Expent(3.0);
			if(!(r >= 0) || isinf(r))
				contract_bad |= 128;
			break;
		case 3:
			r = Normal();
			if(isnan(r) || isinf(r))
				contract_bad |= 256;
			break;
		case 4:
			r = Gamma(1 + (unsigned)(k % 9));
			if(!(r >= 0) || isinf(r))
				contract_bad |= 512;
			break;
		case 5: {
			unsigned lim = 2 + (unsigned)(k % 50);
			unsigned z = Zipf(1.5, lim);
			if(z < 1 || z > lim)
				contract_bad |= 1024;
			r = z;
			break;
		}
		case 6: {
			int v = RandomRangeNonUniform(5, 2, 9);
			if(v < 2 || v > 9)
				contract_bad |= 2048;
			r = v;
			break;
		}
		default:
			return;
	}
	uint64_t b;
	memcpy(&b, &r, sizeof(b));
	st->noise = mix64(st->noise ^ b);
}

struct digest {
	long a, b;    /* logical digest: comparable across runs */
	long blocks;  /* digest of the multiset of live block orders: comparable within a run */
	long live;    /* number of live blocks */
	long calc;    /* checkpoint size recomputed from the allocator structures */
	long size;    /* full_ckpt_size as maintained by the runtime */
};

static void live_blocks(const struct mm_state *mm, long cnt[32], long *live, long *calc)
{
	*live = 0;
	*calc = offsetof(struct mm_checkpoint, chkps) + sizeof(struct buddy_state *);
	for(array_count_t i = 0; i < array_count(mm->buddies); ++i) {
		const struct buddy_state *b = array_get_at(mm->buddies, i);
		*calc += offsetof(struct buddy_checkpoint, base_mem);
		/* iterative walk of the allocation tree: a node with longest==0 is an allocated block
		 * unless it lies below an allocated ancestor */
		struct {
			uint32_t i;
			uint8_t l;
		} stack[64];
		int sp = 0;
		stack[sp].i = 0;
		stack[sp++].l = B_TOTAL_EXP;
		while(sp) {
			uint32_t n = stack[--sp].i;
			uint8_t l = stack[sp].l;
			uint8_t lon = b->longest[n];
			/* a zero node is an allocated block, unless both children are zero too: below an
			 * allocated or entirely free node every value is non-zero (stale or freed), so a
			 * zero node with two zero children is a full internal node */
			int full_internal = !lon && l > B_BLOCK_EXP && !b->longest[buddy_left_child(n)] &&
			    !b->longest[buddy_right_child(n)];
			if(!lon && !full_internal) {
				cnt[l]++;
				(*live)++;
				*calc += 1L << l;
			} else if((full_internal || lon != l) && l > B_BLOCK_EXP) {
				stack[sp].i = buddy_right_child(n);
				stack[sp++].l = l - 1;
				stack[sp].i = buddy_left_child(n);
				stack[sp++].l = l - 1;
			}
		}
	}
}

static void digest(lp_id_t lp_id, struct digest *dg)
{
	struct lp_ctx *lp = &lps[lp_id];
	const struct lpst *st = lp->state_pointer;
	uint64_t h = FNV_INIT;
	if(st) {
		h = fnv(h, &st->s, sizeof(st->s));
		h = fnv(h, &st->cnt, sizeof(st->cnt));
		h = fnv(h, &st->ndraw, sizeof(st->ndraw));
		h = fnv(h, &st->last, sizeof(st->last));
		h = fnv(h, &st->noise, sizeof(st->noise));
		for(int i = 0; i < NSLOT; ++i) {
			unsigned char present = st->slot[i] != NULL;
			h = fnv(h, &present, 1);
			if(present) {
				h = fnv(h, &st->slot[i]->len, sizeof(uint32_t));
				h = fnv(h, st->slot[i]->data, st->slot[i]->len);
			}
		}
	}
	if(lp->rng_ctx)
		h = fnv(h, lp->rng_ctx, sizeof(*lp->rng_ctx));
	h = mix64(h);
	dg->a = (long)(h & 0x3fffffff);
	dg->b = (long)((h >> 30) & 0x3fffffff);
	long cnt[32] = {0};
	live_blocks(&lp->mm_state, cnt, &dg->live, &dg->calc);
	dg->blocks = (long)(mix64(fnv(FNV_INIT, cnt, sizeof(cnt))) & 0x3fffffff);
	dg->size = (long)lp->mm_state.full_ckpt_size;
}

static int pred_of(const struct lpst *st, lp_id_t me)
{
	return st && (int)st->cnt >= M.need[me] && M.endmask[st->s];
}



static bool CanEnd(lp_id_t me, const void *snapshot)
{
	if(never_end)
		return false;
	return pred_of(snapshot, me);
}

/* a send with type 0 / payload -1 forwards the type / payload of the event being processed unchanged */
static void do_sends(lp_id_t me, simtime_t now, const struct send *sends, int n, unsigned cur_ty, const void *cur_pl, unsigned cur_sz, int cur_pid)
{
	for(int j = 0; j < n; ++j) {
		const struct send *sd = &sends[j];
		lp_id_t dest = (me + (lp_id_t)((int)me < M.split ? sd->drule : sd->drule2)) % (lp_id_t)M.nlps;
		unsigned ty = sd->ty ? (unsigned)sd->ty : cur_ty;
		int pid = sd->pid >= 0 ? sd->pid : cur_pid;
		const void *pl = sd->pid >= 0 ? (M.psize[sd->pid] ? M.pbytes[sd->pid] : NULL) : cur_pl;
		unsigned sz = sd->pid >= 0 ? (unsigned)M.psize[sd->pid] : cur_sz;
		if(serial_mode)
			EMIT("\"e\":\"Sched\",\"lp\":%d,\"d\":%d,\"t\":%ld,\"ty\":%u,\"sz\":%u,\"pid\":%d", (int)me,
			    (int)dest, t2i(now + sd->delay), ty, sz, pid);
		ScheduleNewEvent(dest, now + sd->delay, ty, sz ? pl : NULL, sz);
	}
}

static void ProcessEvent(lp_id_t me, simtime_t now, unsigned ty, const void *pl, unsigned sz, void *vst)
{
	struct lpst *st = vst;
	last_disp.u16 = -1;
	if(in_restore)
		++silent_calls;
	if(ty == LP_INIT) {
		st = rs_malloc(sizeof(*st));
		memset(st, 0, sizeof(*st));
		SetState(st);
		st->noise = mix64(me + 1);
		if(serial_mode) {
			struct digest dg;
			/* state_pointer was just set; digest reads it through lps[] */
			digest(me, &dg);
			EMIT("\"e\":\"Disp\",\"lp\":%d,\"t\":0,\"ty\":%d,\"sz\":0,\"pid\":-1,\"u16\":-1,\"s\":0,\"cnt\":0,"
			     "\"dgA\":%ld,\"dgB\":%ld,\"pred\":%d",
			    (int)me, LP_INIT, dg.a, dg.b, pred_of(st, me));
		}
		do_sends(me, 0, M.init[me], M.ninit[me], 1, NULL, 0, 0);
		return;
	}
	if(ty == LP_FINI && real_mode) {
		struct digest dg;
		digest(me, &dg);
		fin_recs[me] = (struct fin_rec){1, st ? (int)st->s : -1, st ? (int)st->cnt : -1, pred_of(st, me), dg.a, dg.b};
		return;
	}
	if(ty == LP_FINI) {
		struct digest dg;
		digest(me, &dg);
		EMIT("\"e\":\"ModelFini\",\"lp\":%d,\"s\":%d,\"cnt\":%d,\"dgA\":%ld,\"dgB\":%ld,\"pred\":%d,\"bad\":%d", (int)me,
		    st ? (int)st->s : -1, st ? (int)st->cnt : -1, dg.a, dg.b, pred_of(st, me), contract_bad);
		return;
	}
	if(!st || ty < 1 || ty > (unsigned)M.T || me >= (lp_id_t)M.nlps) {
		/* the runtime handed the model something that no LP ever scheduled: reported as an observation (the validation decides which
		 * property it breaks), then the run is abandoned - the model cannot continue from a state it does not have */
		EMIT("\"e\":\"BadDispatch\",\"lp\":%ld,\"ty\":%u,\"sz\":%u,\"silent\":%d,\"nostate\":%d", (long)me, ty, sz, in_restore, st == NULL);
		fflush(out);
		_exit(0);
	}

	if(freeze_mode && (int)st->cnt >= M.need[me])
		return;
	int pid = pid_of(pl, sz);
	const struct trans *e = &M.tr[st->s][ty];
	int d = 0;
	if(e->draw > 0) {
		unsigned u16 = (unsigned)(Random() * 65536.0);
		if(u16 > 65535)
			contract_bad |= 4096;
		last_disp.u16 = (int)u16;
		d = (int)((u16 * (unsigned)e->draw) >> 16);
		st->ndraw++;
	}
	uint64_t nowb;
	memcpy(&nowb, &now, sizeof(nowb));
	uint64_t k = mix64(((uint64_t)st->s << 40) ^ ((uint64_t)st->cnt << 20) ^ ((uint64_t)ty << 8) ^ (uint64_t)(pid + 1));
	st->last = mix64(nowb ^ ((uint64_t)ty << 48) ^ fnv(FNV_INIT, pl, sz) ^ ((uint64_t)sz << 32));
	lib_noise(st, e->lib, k);
	mem_churn(st, k, e->mem >= 0 ? e->mem : (int)(k % 8));

	const struct outcome *o = &e->out[d];
	int padd = pid >= 0 ? M.padd[pid] : 0;
	uint32_t ns = (uint32_t)((o->ns + padd) % M.K);
	int may_send = (int)st->cnt < M.cap[me];
	st->s = ns;
	st->cnt++;
	if(serial_mode) {
		struct digest dg;
		digest(me, &dg);
		EMIT("\"e\":\"Disp\",\"lp\":%d,\"t\":%ld,\"ty\":%u,\"sz\":%u,\"pid\":%d,\"u16\":%d,\"s\":%d,\"cnt\":%d,"
		     "\"dgA\":%ld,\"dgB\":%ld,\"pred\":%d",
		    (int)me, t2i(now), ty, sz, pid, last_disp.u16, (int)st->s, (int)st->cnt, dg.a, dg.b, pred_of(st, me));
	}
	if(may_send)
		do_sends(me, now, o->sends, o->nsends, ty, pl, sz, pid);

	if(stop_lp == (int)me && stop_cnt == (int)st->cnt)
		RootsimStop();
}

/* ------------------------------------------------------------------ the hook */
static const char *tph_name[] = {"idle", "A", "B", "C", "D"};


static void emit_state(const char *ev, lp_id_t lp, long m, uint64_t x, uint64_t y)
{
	struct digest dg;
	digest(lp, &dg);
	const struct lpst *st = lps[lp].state_pointer;
	EMIT("\"e\":\"%s\",\"lp\":%d,\"m\":%ld,\"x\":%ld,\"y\":%ld,\"u16\":%d,\"s\":%d,\"cnt\":%d,\"dgA\":%ld,\"dgB\":%ld,"
	     "\"blk\":%ld,\"live\":%ld,\"size\":%ld,\"calc\":%ld,\"pred\":%d",
	    ev, (int)lp, m, (long)x, (long)y, last_disp.u16, st ? (int)st->s : -1, st ? (int)st->cnt : -1, dg.a, dg.b,
	    dg.blocks, dg.live, dg.size, dg.calc, pred_of(st, lp));
}

#ifdef TW_DIST
extern int thr_tag[64];
#endif
void verif_hook(unsigned p, uint64_t a, uint64_t b, uint64_t c, uint64_t d)
{
	if(real_mode)
		return;
	++hook_count;
#ifdef TW_DIST
	thr_tag[vs_self()] = thr_id();
#endif
	if(!(serial_mode && quiet_core))
		switch(p) {
			case VP_YIELD:
			case VP_Q_PRECAS:
				break;
			case VP_ALLOC:
				EMIT("\"e\":\"Alloc\",\"m\":%ld,\"sz\":%d", mid_new((void *)a), (int)b);
				break;
			case VP_FREE:
				EMIT("\"e\":\"Free\",\"m\":%ld", mid_of((void *)a));
				break;
			case VP_FREE_AT_GVT:
				EMIT("\"e\":\"FreeAtGvt\",\"m\":%ld", mid_of((void *)a));
				break;
			case VP_SEND_LOCAL:
			case VP_SEND_REMOTE: {
				const struct lp_msg *m = (void *)a;
				EMIT("\"e\":\"Send\",\"lp\":%d,\"m\":%ld,\"d\":%d,\"t\":%ld,\"ty\":%u,\"sz\":%u,\"pid\":%d,\"rem\":%d",
				    (int)b, mid_of(m), (int)m->dest, t2i(m->dest_t), m->m_type, m->pl_size,
				    pid_of(m->pl, m->pl_size), p == VP_SEND_REMOTE);
				break;
			}
			case VP_Q_PUSH: {
				const struct lp_msg *m = (void *)a;
				EMIT("\"e\":\"Push\",\"m\":%ld,\"q\":%d,\"d\":%d,\"t\":%ld,\"ty\":%u,\"pid\":%d", mid_of(m), dist_ranks ? (int)nid * 8 + (int)b : (int)b,
				    (int)m->dest, t2i(m->dest_t), m->m_type, pid_of(m->pl, m->pl_size));
				break;
			}
			case VP_Q_DRAIN:
				if(a) {
					int n = 0;
					for(const struct lp_msg *m = (void *)a; m; m = m->next)
						++n;
					EMIT("\"e\":\"Drain\",\"k\":%d", n);
				}
				break;
			case VP_EXTRACT:
				if(a)
					EMIT("\"e\":\"Extract\",\"m\":%ld", mid_of((void *)a));
				break;
			case VP_FLAG:
				EMIT("\"e\":\"Flag\",\"m\":%ld,\"old\":%u", mid_of((void *)a), (unsigned)b);
				break;
			case VP_ANTI_LOCAL:
				EMIT("\"e\":\"AntiLocal\",\"m\":%ld,\"old\":%u", mid_of((void *)a), (unsigned)b);
				break;
			case VP_ANTI_REMOTE:
				EMIT("\"e\":\"AntiRemote\",\"m\":%ld,\"dn\":%d", mid_of((void *)a), (int)b);
				break;
			case VP_UNDO:
				EMIT("\"e\":\"Undo\",\"m\":%ld,\"old\":%u", mid_of((void *)a), (unsigned)b);
				break;
			case VP_RB_BEGIN:
				EMIT("\"e\":\"RbBegin\",\"lp\":%d,\"past\":%d", (int)a, (int)b);
				break;
			case VP_RESTORE:
				in_restore = 1;
				silent_calls = 0;
				EMIT("\"e\":\"Restore\",\"lp\":%d,\"last\":%d,\"past\":%d,\"size\":%ld", (int)a, (int)b, (int)c,
				    (long)d);
				break;
			case VP_RB_END:
				in_restore = 0;
				emit_state("RbEnd", a, silent_calls, b, c);
				break;
			case VP_EXEC:
				emit_state("Exec", a, mid_of((void *)b), 0, 0);
				break;
			case VP_CKPT:
				EMIT("\"e\":\"Ckpt\",\"lp\":%d,\"ref\":%d,\"size\":%ld", (int)a, (int)b, (long)c);
				break;
			case VP_EARLY_STORE:
				EMIT("\"e\":\"EarlyStore\",\"lp\":%d,\"am\":%ld", (int)a, mid_of((void *)b));
				break;
			case VP_EARLY_MATCH:
				EMIT("\"e\":\"EarlyMatch\",\"lp\":%d,\"m\":%ld,\"am\":%ld", (int)a, mid_of((void *)b),
				    mid_of((void *)c));
				break;
			case VP_RANTI_MATCH:
				EMIT("\"e\":\"RAntiMatch\",\"lp\":%d,\"m\":%ld,\"am\":%ld,\"past\":%d", (int)a,
				    mid_of((void *)b), mid_of((void *)c), (int)d);
				break;
			case VP_LP_INIT:
				emit_state("LpInit", a, mid_of((void *)b), 0, 0);
				break;
			case VP_LP_FINI:
				EMIT("\"e\":\"LpFini\",\"lp\":%d", (int)a);
				break;
			case VP_FOSSIL:
				EMIT("\"e\":\"Fossil\",\"lp\":%d,\"gvt\":%ld,\"k\":%d,\"before\":%d", (int)a, bits2i(b), (int)c,
				    (int)d);
				break;
			case VP_GVT_START:
				EMIT("\"e\":\"GvtStart\"");
				break;
			case VP_GVT_INITIATE:
				EMIT("\"e\":\"GvtInitiate\"");
				break;
			case VP_TPHASE:
				EMIT("\"e\":\"TPhase\",\"to\":\"%s\",\"val\":%ld", tph_name[a], bits2i(b));
				break;
			case VP_NPHASE:
				EMIT("\"e\":\"NPhase\",\"to\":%d,\"val\":%ld,\"x\":%d", (int)a, a == 8 ? bits2i(b) : (long)b,
				    (int)c);
				break;
			case VP_GVT:
				EMIT("\"e\":\"Gvt\",\"val\":%ld", bits2i(a));
				break;
			case VP_DRAIN:
				EMIT("\"e\":\"DrainStage\",\"st\":%d", (int)a);
				break;
			case VP_TERM_LP:
				EMIT("\"e\":\"TermLp\",\"lp\":%d,\"t\":%ld,\"term\":%d,\"init\":%d", (int)a, bits2i(b), (int)c,
				    (int)d);
				break;
			case VP_TERM_UNDO:
				EMIT("\"e\":\"TermUndo\",\"lp\":%d,\"old\":%ld,\"keep\":%d,\"t\":%ld", (int)a, bits2i(b), (int)c,
				    bits2i(d));
				break;
			case VP_VOTE:
				EMIT("\"e\":\"Vote\",\"gvt\":%ld,\"prev\":%d,\"lte\":%d", bits2i(a), (int)b, (int)c);
				break;
			case VP_TERM_CTRL:
				EMIT("\"e\":\"TermCtrl\"");
				break;
			case VP_LOOP_EXIT:
				EMIT("\"e\":\"LoopExit\"");
				break;
			case VP_FINI:
				EMIT("\"e\":\"Fini\",\"st\":%d", (int)a);
				break;
			case VP_BAR_ARRIVE:
				EMIT("\"e\":\"BarArrive\",\"c\":%d,\"l\":%d,\"ph\":%d", (int)a, (int)b, (int)c);
				break;
			case VP_BAR_LEAVE:
				EMIT("\"e\":\"BarLeave\",\"l\":%d", (int)a);
				break;
			default:
				break;
		}
	if(stop_at >= 0 && (long)hook_count == stop_at && !serial_mode) {
		stop_at = -1;
		EMIT("\"e\":\"Stop\"");
		RootsimStop();
	}
	vs_guide_tag(thr_id());
	vs_yield(p, (unsigned long)a);
}


unsigned verif_batch(unsigned dflt)
{
	(void)dflt;
	return batch_size;
}

/* entry point of one rank: configure and run the real runtime */
int rank_run(int threads, int ckpt, unsigned gvt_period, double term_time, const char *stats, unsigned long prng)
{
	struct simulation_configuration conf = {0};
	conf.lps = (lp_id_t)M.nlps;
	conf.n_threads = serial_mode ? 1 : (unsigned)threads;
	conf.termination_time = term_time;
	conf.gvt_period = gvt_period;
	conf.log_level = LOG_SILENT;
	conf.stats_file = stats;
	conf.ckpt_interval = (unsigned)ckpt;
	conf.prng_seed = prng;
	conf.core_binding = false;
	conf.serial = serial_mode;
	conf.dispatcher = ProcessEvent;
	conf.committed = CanEnd;
	if(RootsimInit(&conf))
		return -100;
	return RootsimRun();
}
#endif /* TW_RANK_PART */

#ifdef TW_SHARED_PART
/* identity of a message buffer as used in the trace (for the fake MPI, which sees the buffers handed to MPI_Isend) */
long tw_mid_of(const void *p) { return mid_of(p); }
#endif

#ifdef TW_SHARED_PART
/* ------------------------------------------------------------------ virtual clock */
int __wrap_gettimeofday(struct timeval *tv, void *tz)
{
	(void)tz;
	if(!vs_active()) {
		struct timespec ts;
		clock_gettime(CLOCK_REALTIME, &ts);
		tv->tv_sec = ts.tv_sec;
		tv->tv_usec = ts.tv_nsec / 1000;
		return 0;
	}
	unsigned long s = vs_steps();
	tv->tv_sec = 1000 + s / 1000000;
	tv->tv_usec = s % 1000000;
	return 0;
}

/* independent reader of <stats>.bin (layout documented in src/log/stats.c) */
static void dump_stats(const char *base)
{
	char path[1024];
	snprintf(path, sizeof(path), "%s.bin", base);
	FILE *f = fopen(path, "rb");
	if(!f) {
		fprintf(out, "{\"n\":%lu,\"thr\":-1,\"e\":\"StatsMissing\"}\n", ++seqno);
		return;
	}
	int ok = 1;
	uint16_t endian;
	int64_t n;
	ok &= fread(&endian, 2, 1, f) == 1;
	ok &= fread(&n, 8, 1, f) == 1;
	int64_t nstats = n;
	int idx_proc = -1, idx_rb = -1, idx_und = -1, idx_ck = -1, idx_sil = -1, idx_anti = -1;
	for(int64_t i = 0; ok && i < nstats && i < 64; ++i) {
		unsigned char len;
		char name[256] = {0};
		ok &= fread(&len, 1, 1, f) == 1;
		ok &= len == 0 || fread(name, len, 1, f) == 1;
		if(!strcmp(name, "processed messages")) idx_proc = (int)i;
		if(!strcmp(name, "rollbacks")) idx_rb = (int)i;
		if(!strcmp(name, "rolled back messages")) idx_und = (int)i;
		if(!strcmp(name, "checkpoints")) idx_ck = (int)i;
		if(!strcmp(name, "silent messages")) idx_sil = (int)i;
		if(!strcmp(name, "anti messages")) idx_anti = (int)i;
	}
	int64_t nodes = 0;
	ok &= fread(&nodes, 8, 1, f) == 1;
	uint64_t glob[9] = {0};
	ok &= fread(glob, sizeof(glob), 1, f) == 1;
	int64_t nsz = 0;
	ok &= fread(&nsz, 8, 1, f) == 1;
	int nnode = (int)(nsz / 16);
	fprintf(out, "{\"n\":%lu,\"thr\":-1,\"e\":\"StatsHdr\",\"ok\":%d,\"endian\":%u,\"nstats\":%ld,\"nodes\":%ld,\"threads\":%lu,\"lps\":%lu,\"nnode\":%d,"
	             "\"rem\":%ld,\"names\":%d}\n",
	    ++seqno, ok, endian, (long)nstats, (long)nodes, (unsigned long)glob[0], (unsigned long)glob[1], nnode, (long)(nsz % 16),
	    idx_proc >= 0 && idx_rb >= 0 && idx_und >= 0 && idx_ck >= 0 && idx_sil >= 0 && idx_anti >= 0);
	for(int i = 0; ok && i < nnode; ++i) {
		double g;
		uint64_t rss;
		ok &= fread(&g, 8, 1, f) == 1 && fread(&rss, 8, 1, f) == 1;
		fprintf(out, "{\"n\":%lu,\"thr\":-1,\"e\":\"StatsNode\",\"k\":%d,\"gvt\":%ld}\n", ++seqno, i + 1, t2i(g));
	}
	for(uint64_t t = 0; ok && t < glob[0] && t < 64; ++t) {
		int64_t tsz = 0;
		ok &= fread(&tsz, 8, 1, f) == 1;
		int nrec = (int)(tsz / (8 * nstats));
		fprintf(out, "{\"n\":%lu,\"thr\":%d,\"e\":\"StatsThrHdr\",\"nrec\":%d,\"rem\":%ld}\n", ++seqno, (int)t, nrec, (long)(tsz % (8 * nstats)));
		for(int k = 0; ok && k < nrec; ++k) {
			uint64_t v[64] = {0};
			ok &= fread(v, 8, (size_t)nstats, f) == (size_t)nstats;
			fprintf(out, "{\"n\":%lu,\"thr\":%d,\"e\":\"StatsThr\",\"k\":%d,\"proc\":%lu,\"rb\":%lu,\"und\":%lu,\"ck\":%lu,\"sil\":%lu,\"anti\":%lu}\n",
			    ++seqno, (int)t, k + 1, (unsigned long)v[idx_proc < 0 ? 0 : idx_proc], (unsigned long)v[idx_rb < 0 ? 0 : idx_rb],
			    (unsigned long)v[idx_und < 0 ? 0 : idx_und], (unsigned long)v[idx_ck < 0 ? 0 : idx_ck], (unsigned long)v[idx_sil < 0 ? 0 : idx_sil],
			    (unsigned long)v[idx_anti < 0 ? 0 : idx_anti]);
		}
	}
	char extra;
	int trailing = fread(&extra, 1, 1, f) == 1;
	fprintf(out, "{\"n\":%lu,\"thr\":-1,\"e\":\"StatsEnd\",\"ok\":%d,\"trailing\":%d}\n", ++seqno, ok, trailing);
	fclose(f);
}

static void on_hang(const char *why)
{
	if(out) {
		fprintf(out, "{\"n\":%lu,\"thr\":-1,\"e\":\"Hang\",\"why\":\"%s\"}\n", ++seqno, why);
		fflush(out);
	}
}

static void on_signal(int sig)
{
	if(out) {
		fprintf(out, "{\"n\":%lu,\"thr\":-1,\"e\":\"Crash\",\"sig\":%d}\n", ++seqno, sig);
		fflush(out);
	}
	_exit(3);
}

#ifdef TW_DIST
extern int r0_rank_run(int, int, unsigned, double, const char *, unsigned long);
extern int r1_rank_run(int, int, unsigned, double, const char *, unsigned long);
extern int r2_rank_run(int, int, unsigned, double, const char *, unsigned long);
extern void fm_init(int ranks, unsigned long seed, int mode);
extern void fm_set_rank(int r);
struct rank_args {
	int k, threads, ckpt;
	unsigned period;
	double term;
	unsigned long prng;
	int ret;
};
static void *rank_main(void *p)
{
	struct rank_args *a = p;
	fm_set_rank(a->k);
	int (*fn[3])(int, int, unsigned, double, const char *, unsigned long) = {r0_rank_run, r1_rank_run, r2_rank_run};
	a->ret = fn[a->k](a->threads, a->ckpt, a->period, a->term, NULL, a->prng);
	return NULL;
}
static int run_all(int threads, int ckpt, unsigned gvt_period, double term_time, const char *stats, unsigned long prng)
{
	(void)stats;
	struct rank_args ra[3];
	pthread_t th[3];
	for(int k = 0; k < dist_ranks; ++k) {
		ra[k] = (struct rank_args){k, threads, ckpt, gvt_period, term_time, prng, 0};
		pthread_create(&th[k], NULL, rank_main, &ra[k]);
	}
	int r = 0;
	for(int k = 0; k < dist_ranks; ++k) {
		pthread_join(th[k], NULL);
		r |= ra[k].ret;
	}
	return r;
}
#else
extern int rank_run(int, int, unsigned, double, const char *, unsigned long);
static int run_all(int threads, int ckpt, unsigned gvt_period, double term_time, const char *stats, unsigned long prng)
{
	return rank_run(threads, ckpt, gvt_period, term_time, stats, prng);
}
#endif

int main(int argc, char **argv)
{
	stop_at = -1;
	stop_lp = stop_cnt = -1;
	next_mid = 1;
	batch_size = 64;
	max_lines = 40000;
	const char *model = NULL, *outp = NULL, *script = NULL, *stats = NULL, *guide = NULL;
	int net_mode = 0;
	unsigned skew = 0, park = 0, skew_point = VP_TPHASE;
	const char *delay = NULL;
	int skew_tag = -1;
	int threads = 2, ckpt = 0, policy = 0;
	unsigned gvt_period = 0, num = 1, den = 4;
	unsigned long budget = 4000000, seed = 1, prng = 12345;
	double term_time = 0;
	for(int i = 1; i < argc; ++i) {
		const char *a = argv[i];
		const char *v = i + 1 < argc ? argv[i + 1] : "";
		if(!strcmp(a, "--model")) model = v, ++i;
		else if(!strcmp(a, "--out")) outp = v, ++i;
		else if(!strcmp(a, "--serial")) serial_mode = 1;
		else if(!strcmp(a, "--quiet-core")) quiet_core = 1;
		else if(!strcmp(a, "--never-end")) never_end = 1;
		else if(!strcmp(a, "--real")) real_mode = 1;
		else if(!strcmp(a, "--freeze")) freeze_mode = 1;
		else if(!strcmp(a, "--threads")) threads = atoi(v), ++i;
		else if(!strcmp(a, "--ckpt")) ckpt = atoi(v), ++i;
		else if(!strcmp(a, "--gvt-period")) gvt_period = (unsigned)atoi(v), ++i;
		else if(!strcmp(a, "--seed")) seed = strtoul(v, NULL, 10), ++i;
		else if(!strcmp(a, "--prng")) prng = strtoul(v, NULL, 10), ++i;
		else if(!strcmp(a, "--switch")) sscanf(v, "%u/%u", &num, &den), ++i;
		else if(!strcmp(a, "--policy")) policy = atoi(v), ++i;
		else if(!strcmp(a, "--budget")) budget = strtoul(v, NULL, 10), ++i;
		else if(!strcmp(a, "--script")) script = v, ++i;
		else if(!strcmp(a, "--guide")) guide = v, ++i;
		else if(!strcmp(a, "--stop-at")) stop_at = atol(v), ++i;
		else if(!strcmp(a, "--stop-lp")) sscanf(v, "%d:%d", &stop_lp, &stop_cnt), ++i;
		else if(!strcmp(a, "--term-time")) term_time = atof(v), ++i;
		else if(!strcmp(a, "--stats")) stats = v, ++i;
		else if(!strcmp(a, "--batch")) batch_size = (unsigned)atoi(v), ++i;
		else if(!strcmp(a, "--ranks")) dist_ranks = atoi(v), ++i;
		else if(!strcmp(a, "--skew")) skew = (unsigned)atoi(v), ++i;
		else if(!strcmp(a, "--delay")) delay = v, ++i;
		else if(!strcmp(a, "--skew-tag")) skew_tag = atoi(v), ++i;
		else if(!strcmp(a, "--skew-point")) skew_point = !strcmp(v, "drain") ? VP_Q_DRAIN : !strcmp(v, "nphase") ? VP_NPHASE : VP_TPHASE, ++i;
		else if(!strcmp(a, "--park")) park = (unsigned)atoi(v), ++i;
		else if(!strcmp(a, "--max-lines")) max_lines = strtoul(v, NULL, 10), ++i;
		else if(!strcmp(a, "--net")) net_mode = atoi(v), ++i;
		else die("unknown argument");
	}
	if(!model || !outp)
		die("usage: twh --model M --out T [--serial] [--threads N] ...");
	model_load(model);
	out = fopen(outp, "w");
	if(!out)
		die("cannot open output");
	static char obuf[1 << 20];
	setvbuf(out, obuf, _IOFBF, sizeof(obuf));
	signal(SIGSEGV, on_signal);
	signal(SIGABRT, on_signal);
	signal(SIGBUS, on_signal);
	signal(SIGFPE, on_signal);

	fprintf(out,
	    "{\"n\":0,\"thr\":-1,\"e\":\"Config\",\"serial\":%d,\"threads\":%d,\"ckpt\":%d,\"period\":%u,\"seed\":%lu,"
	    "\"prng\":%lu,\"term\":%ld,\"nlps\":%d,\"batch\":%u,\"nev\":%d,\"sw\":\"%u/%u\",\"policy\":%d,\"stopat\":%ld,\"ranks\":%d,\"net\":%d,\"skew\":%u,\"park\":%u}\n",
	    serial_mode, threads, ckpt, gvt_period, seed, prng, term_time > 0 ? (long)term_time : INF_T, M.nlps, batch_size, never_end, num, den, policy, stop_at,
	    dist_ranks, net_mode, skew, park);

	vs_set_hang_cb(on_hang);
	if(!real_mode)
		vs_init(seed, num, den, budget, policy);
#ifdef TW_DIST
	if(dist_ranks < 1 || dist_ranks > 3)
		die("--ranks 1..3 required");
	fm_init(dist_ranks, seed, net_mode);
#else
	(void)net_mode;
#endif
	if(script)
		vs_load_script(script);
	if(guide) {
		/* a behaviour of TimeWarpMC: the order of the accesses to memory shared between workers */
		static const unsigned shared[] = {VP_Q_PUSH, VP_Q_DRAIN, VP_FLAG, VP_ANTI_LOCAL, VP_UNDO, 100, 101}; /* 100/101: fake MPI send/receive */
		static const struct vs_guide_roles roles = {VP_ALLOC, VP_Q_PRECAS, VP_Q_PUSH, VP_Q_DRAIN, VP_EXTRACT, VP_FLAG, VP_ANTI_LOCAL, VP_ANTI_REMOTE, VP_UNDO,
		    VP_RB_BEGIN, 100, 101};
		vs_load_guide(guide, shared, 7, &roles);
	}
	if(park)
		vs_park(1, VP_EXTRACT, park); /* the worker with the highest thread id is created first: delay it when it enters its main loop */
	if(delay) {
		/* tag:point:nth:len - one long delay of one thread at its n-th arrival at an observation point (drain|tphase|nphase|flag|push) */
		int tg = 0;
		char pn[16] = "";
		unsigned long nth = 1;
		unsigned len = 100;
		if(sscanf(delay, "%d:%15[a-z]:%lu:%u", &tg, pn, &nth, &len) >= 2) {
			unsigned pt = !strcmp(pn, "drain") ? VP_Q_DRAIN : !strcmp(pn, "nphase") ? VP_NPHASE : !strcmp(pn, "flag") ? VP_FLAG :
			    !strcmp(pn, "push") ? VP_Q_PUSH : !strcmp(pn, "precas") ? VP_Q_PRECAS : VP_TPHASE;
			vs_delay(tg, pt, nth, len);
		}
	}
	vs_set_skew_tag(skew_tag);
	if(skew)
		vs_set_skew(skew_point, skew); /* let threads drift apart at the GVT thread-phase transitions (or inside the inbox exchange: also the
		                                * one inside msg_queue_time_peek, i.e. in the middle of a GVT phase step; or at the node phases) */
	int r = run_all(threads, ckpt, gvt_period, term_time, stats, prng);
	if(stats)
		dump_stats(stats);
	if(real_mode)
		for(int i = 0; i < M.nlps; ++i)
			fprintf(out, "{\"n\":%lu,\"thr\":-1,\"e\":\"ModelFini\",\"lp\":%d,\"s\":%d,\"cnt\":%d,\"dgA\":%ld,\"dgB\":%ld,\"pred\":%d,\"set\":%d}\n",
			    ++seqno, i, fin_recs[i].s, fin_recs[i].cnt, fin_recs[i].a, fin_recs[i].b, fin_recs[i].pred, fin_recs[i].set);
	fprintf(out, "{\"n\":%lu,\"thr\":-1,\"e\":\"End\",\"ret\":%d,\"bad\":%d,\"steps\":%lu}\n", ++seqno, r, contract_bad,
	    vs_steps());
	fclose(out);
	if(guide) {
		unsigned long gp, gl;
		const char *why;
		int st = vs_guide_status(&gp, &gl, &why);
		printf("GUIDE status=%d pos=%lu len=%lu %s\n", st, gp, gl, why);
	}
	return 0;
}
#endif /* TW_SHARED_PART */
