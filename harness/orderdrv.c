/* orderdrv - dumps the truth table of msg_is_before / q_elem_is_before (the real macros and inline
 * functions of src/lp/msg.h and src/datatypes/msg_queue.c) over a finite domain of events, varying
 * every field the order must NOT depend on (address, next, dest, m_seq, non-ANTI flag bits). C16 */
#define _GNU_SOURCE
#include <datatypes/msg_queue.c> /* for q_elem_is_before and struct q_elem (static/macros) */

#include <stdio.h>
#include <stdlib.h>
#include <string.h>

unsigned verif_batch(unsigned d) { return d; }
void verif_hook(unsigned p, uint64_t a, uint64_t b, uint64_t c, uint64_t d) { (void)p, (void)a, (void)b, (void)c, (void)d; }

struct evd {
	int t, anti, ty, sz;
	unsigned char pl[48];
};
static struct evd D[512];
static int nD;

static struct lp_msg *mk(const struct evd *e, int variant)
{
	/* different addresses and non-content fields per variant */
	size_t pad = (size_t)(variant * 64 + 16);
	char *raw = malloc(sizeof(struct lp_msg) + 64 + pad + 64);
	memset(raw, variant ? 0xA5 : 0x3C, sizeof(struct lp_msg) + 64 + pad + 64);
	struct lp_msg *m = (struct lp_msg *)(raw + pad);
	m->next = variant ? (struct lp_msg *)raw : NULL;
	m->dest = variant ? 7 : 0;
	m->dest_t = e->t;
	m->raw_flags = (uint32_t)e->anti | (variant ? 2U : 0U);
	m->m_seq = variant ? 0xdeadbeefU : 0;
	m->m_type = (uint32_t)e->ty;
	m->pl_size = (uint32_t)e->sz;
	memcpy(m->pl, e->pl, (size_t)e->sz);
	return m;
}

int main(int argc, char **argv)
{
	if(argc < 2)
		return 2;
	FILE *out = fopen(argv[1], "w");
	static const int ts[] = {0, 1}, tys[] = {0, 1, 65534}, szs[] = {0, 1, 32, 33, 40};
	for(unsigned a = 0; a < 2; ++a)
		for(unsigned ti = 0; ti < 2; ++ti)
			for(unsigned yi = 0; yi < 3; ++yi)
				for(unsigned si = 0; si < 5; ++si) {
					int sz = szs[si];
					/* contents: all 7s; first byte larger / smaller; last byte smaller / larger; and (two-part payloads) head larger with
					 * tail smaller, head smaller with tail larger - the pairs on which a piecewise comparison of the 32-byte base
					 * area and the continuation disagrees with a comparison of the whole payload.  The last byte of a 33/40 byte
					 * payload lies beyond the base area. */
					int npat = sz == 0 ? 1 : sz == 1 ? 3 : 7;
					for(int p = 0; p < npat; ++p) {
						struct evd *e = &D[nD++];
						e->t = ts[ti];
						e->anti = (int)a;
						e->ty = tys[yi];
						e->sz = sz;
						memset(e->pl, 7, sizeof(e->pl));
						if(sz == 1) {
							e->pl[0] = p == 1 ? 255 : p == 2 ? 0 : 7;
							continue;
						}
						if(p == 1 || p == 5)
							e->pl[0] = 255;
						if(p == 2 || p == 6)
							e->pl[0] = 0;
						if(p == 3 || p == 6)
							e->pl[sz - 1] = 255;
						if(p == 4 || p == 5)
							e->pl[sz - 1] = 0;
					}
				}
	fprintf(out, "{\"e\":\"Domain\",\"events\":[");
	for(int i = 0; i < nD; ++i) {
		fprintf(out, "%s{\"t\":%d,\"anti\":%d,\"ty\":%d,\"sz\":%d,\"pl\":[", i ? "," : "", D[i].t, D[i].anti, D[i].ty, D[i].sz);
		for(int k = 0; k < D[i].sz; ++k)
			fprintf(out, "%s%d", k ? "," : "", D[i].pl[k]);
		fprintf(out, "]}");
	}
	fprintf(out, "]}\n");
	for(int i = 0; i < nD; ++i) {
		struct lp_msg *a0 = mk(&D[i], 0), *a1 = mk(&D[i], 1);
		fprintf(out, "{\"e\":\"Row\",\"i\":%d,\"mb\":[", i + 1);
		for(int j = 0; j < nD; ++j) {
			struct lp_msg *b0 = mk(&D[j], 0), *b1 = mk(&D[j], 1);
			int r0 = msg_is_before(a0, b1), r1 = msg_is_before(a1, b0), r2 = msg_is_before(a0, b0);
			/* 2 = the answer depended on a non-content field */
			fprintf(out, "%s%d", j ? "," : "", (r0 == r1 && r1 == r2) ? r0 : 2);
		}
		fprintf(out, "],\"qb\":[");
		for(int j = 0; j < nD; ++j) {
			struct lp_msg *b0 = mk(&D[j], 0), *b1 = mk(&D[j], 1);
			struct q_elem qa0 = {.t = a0->dest_t, .m = a0}, qa1 = {.t = a1->dest_t, .m = a1};
			struct q_elem qb0 = {.t = b0->dest_t, .m = b0}, qb1 = {.t = b1->dest_t, .m = b1};
			int r0 = q_elem_is_before(qa0, qb1), r1 = q_elem_is_before(qa1, qb0);
			fprintf(out, "%s%d", j ? "," : "", r0 == r1 ? r0 : 2);
		}
		fprintf(out, "]}\n");
	}
	fclose(out);
	return 0;
}
