/* mqdrv - P producer threads + the owning consumer on the real msg_queue.c under the cooperative
 * scheduler (switch points: between load and CAS, after the CAS, after the exchange).  C15 */
#define _GNU_SOURCE
#include <core/core.h>
#include <datatypes/msg_queue.h>
#include <lp/lp.h>
#include <lp/msg.h>
#include <mm/msg_allocator.h>
#include <verif/hooks.h>

#include "vsched.h"

#include <pthread.h>
#include <stdio.h>
#include <stdlib.h>
#include <string.h>

static FILE *out;
static int P, PER;
static uint64_t rs;
static __thread int quiet;
#define INF_T 1073741824L

static uint64_t rnd(void)
{
	rs ^= rs << 13;
	rs ^= rs >> 7;
	rs ^= rs << 17;
	return rs;
}
static long idof(const struct lp_msg *m) { return m ? (long)m->m_seq : 0; }
unsigned verif_batch(unsigned d) { return d; }
void verif_hook(unsigned p, uint64_t a, uint64_t b, uint64_t c, uint64_t d)
{
	(void)b, (void)c, (void)d;
	if(p == VP_Q_PUSH) {
		const struct lp_msg *m = (void *)a;
		fprintf(out, "{\"e\":\"Push\",\"m\":%ld,\"t\":%ld}\n", idof(m), (long)m->dest_t);
	} else if(p == VP_Q_DRAIN && a) {
		int n = 0;
		for(const struct lp_msg *m = (void *)a; m; m = m->next)
			++n;
		fprintf(out, "{\"e\":\"Drain\",\"k\":%d,\"ms\":[", n);
		int f = 1;
		for(const struct lp_msg *m = (void *)a; m; m = m->next, f = 0)
			fprintf(out, "%s%ld", f ? "" : ",", idof(m));
		fprintf(out, "]}\n");
	}
	if(p == VP_ALLOC || p == VP_FREE)
		return;
	vs_yield(p, (unsigned long)a);
}
static void on_hang(const char *why)
{
	fprintf(out, "{\"e\":\"Hang\",\"why\":\"%s\"}\n", why);
	fflush(out);
}
static int produced, total;
static volatile int consumer_ready;
static void *producer(void *arg)
{
	int id = (int)(long)arg;
	rid = 1 + (unsigned)id;
	msg_allocator_init();
	while(!consumer_ready) /* the runtime separates queue initialisation from the first insertion by a barrier */
		vs_yield(0, 8);
	for(int i = 0; i < PER; ++i) {
		/* few distinct timestamps: many ties */
		struct lp_msg *m = msg_allocator_pack(0, (simtime_t)(rnd() % 4), 1, NULL, 0);
		m->m_seq = (uint32_t)(1 + id * 1000 + i);
		atomic_store_explicit(&m->flags, (rnd() % 5 == 0) ? 1U : 0U, memory_order_relaxed); /* some cancelled entries */
		msg_queue_insert(m);
		++produced;
	}
	return NULL;
}
static void *consumer(void *arg)
{
	(void)arg;
	rid = 0;
	msg_allocator_init();
	msg_queue_init(); /* the private heap is thread-local: it must be initialised by its owner */
	consumer_ready = 1;
	int got = 0, idle = 0;
	while(got < total && idle < 200000) {
		if(rnd() % 3 == 0) {
			fprintf(out, "{\"e\":\"PeekBegin\"}\n");
			simtime_t t = msg_queue_time_peek();
			fprintf(out, "{\"e\":\"Peek\",\"t\":%ld}\n", t >= 1e300 ? INF_T : (long)t);
		} else {
			struct lp_msg *m = msg_queue_extract();
			if(m) {
				fprintf(out, "{\"e\":\"Extract\",\"m\":%ld,\"t\":%ld}\n", idof(m), (long)m->dest_t);
				++got;
				idle = 0;
			} else {
				if(produced == total || (idle % 64) == 0)
					fprintf(out, "{\"e\":\"Extract\",\"m\":0,\"t\":0}\n");
				++idle;
			}
		}
		vs_yield(0, 9);
	}
	return NULL;
}
int main(int argc, char **argv)
{
	if(argc < 7)
		return 2;
	out = fopen(argv[1], "w");
	unsigned long seed = strtoul(argv[2], NULL, 10);
	P = atoi(argv[3]);
	PER = atoi(argv[4]);
	unsigned num = 1, den = 2;
	sscanf(argv[5], "%u/%u", &num, &den);
	int policy = atoi(argv[6]);
	rs = seed * 0x9E3779B97F4A7C15ULL + 7;
	total = P * PER;
	global_config.n_threads = 1; /* every LP is owned by the consumer thread */
	global_config.lps = 1;
	n_lps_node = 1;
	lid_node_first = 0;
	msg_queue_global_init();
	fprintf(out, "{\"e\":\"Cfg\",\"p\":%d,\"per\":%d,\"seed\":%lu}\n", P, PER, seed);
	vs_set_hang_cb(on_hang);
	vs_init(seed, num, den, 3000000, policy);
	pthread_t th[64];
	pthread_create(&th[0], NULL, consumer, NULL);
	for(int i = 0; i < P; ++i)
		pthread_create(&th[1 + i], NULL, producer, (void *)(long)i);
	for(int i = 0; i <= P; ++i)
		pthread_join(th[i], NULL);
	fprintf(out, "{\"e\":\"End\",\"total\":%d}\n", total);
	fclose(out);
	return 0;
}
