/* ckptdrv - random histories of rs_malloc/rs_calloc/rs_realloc/rs_free/writes interleaved with
 * checkpoints, restores to arbitrary earlier points and fossil collections on the REAL allocator
 * (src/mm/buddy), logging every call with its result and the projected allocator state.
 * Built with small arena constants so that TLC can follow every step (C12, C05, C13, C11). */
#define _GNU_SOURCE
#include <core/core.h>
#include <lp/lp.h>
#include <mm/buddy/buddy.h>
#include <mm/buddy/ckpt.h>
#include <mm/buddy/multi.h>
#include <mm/model_allocator.h>
#include <verif/hooks.h>

#include <signal.h>
#include <stdio.h>
#include <stdlib.h>
#include <string.h>
#include <unistd.h>

unsigned verif_batch(unsigned d) { return d; }
void verif_hook(unsigned p, uint64_t a, uint64_t b, uint64_t c, uint64_t d) { (void)p, (void)a, (void)b, (void)c, (void)d; }

static FILE *out;
static uint64_t rs;

/* arenas are served from a pool at a randomly chosen free slot, so that an arena created later can lie
 * below, between or above the existing ones ("growth to several arenas ... in any address position") */
#define POOL_SLOTS 24
static _Alignas(64) unsigned char pool[POOL_SLOTS][(sizeof(struct buddy_state) + 63) / 64 * 64];
static unsigned char pool_used[POOL_SLOTS];
static uint64_t prs = 0x1234567;
extern void *__real_malloc(size_t);
extern void __real_free(void *);
void *__wrap_malloc(size_t n)
{
	if(n == sizeof(struct buddy_state)) {
		int freec = 0;
		for(int i = 0; i < POOL_SLOTS; ++i)
			freec += !pool_used[i];
		if(freec) {
			prs = prs * 6364136223846793005ULL + 1442695040888963407ULL;
			int pick = (int)((prs >> 33) % (unsigned)freec);
			for(int i = 0; i < POOL_SLOTS; ++i)
				if(!pool_used[i] && !pick--) {
					pool_used[i] = 1;
					return pool[i];
				}
		}
	}
	return __real_malloc(n);
}
void __wrap_free(void *p)
{
	if((unsigned char *)p >= pool[0] && (unsigned char *)p < pool[POOL_SLOTS - 1] + sizeof(pool[0])) {
		pool_used[((unsigned char *)p - pool[0]) / sizeof(pool[0])] = 0;
		return;
	}
	__real_free(p);
}
static struct lp_ctx the_lp;
#define MM (&the_lp.mm_state)

static uint64_t rnd(void)
{
	rs ^= rs << 13;
	rs ^= rs >> 7;
	rs ^= rs << 17;
	return rs;
}

struct blk {
	int k, off, exp;
};
static struct blk B[4096];
static int nB;

static unsigned char pat(int tag, unsigned i) { return (unsigned char)(tag * 37 + i * 11 + (i >> 3)); }
static void fill(unsigned char *p, unsigned n, int tag)
{
	p[0] = (unsigned char)(tag & 0xff);
	p[1] = (unsigned char)(tag >> 8);
	for(unsigned i = 2; i < n; ++i)
		p[i] = pat(tag, i);
}
/* decode the tag of a block and verify that the whole block carries its pattern; -1 = corrupted */
static int read_tag(const unsigned char *p, unsigned n)
{
	int tag = p[0] | (p[1] << 8);
	for(unsigned i = 2; i < n; ++i)
		if(p[i] != pat(tag, i))
			return -1;
	return tag;
}
static int prefix_ok(const unsigned char *p, unsigned n, int tag)
{
	if(n >= 1 && p[0] != (unsigned char)(tag & 0xff))
		return 0;
	if(n >= 2 && p[1] != (unsigned char)(tag >> 8))
		return 0;
	for(unsigned i = 2; i < n; ++i)
		if(p[i] != pat(tag, i))
			return 0;
	return 1;
}

static int arena_of(const void *p)
{
	for(array_count_t i = 0; i < array_count(MM->buddies); ++i) {
		struct buddy_state *b = array_get_at(MM->buddies, i);
		if((const char *)p >= (const char *)b->base_mem && (const char *)p < (const char *)b->base_mem + (1 << B_TOTAL_EXP))
			return (int)i + 1;
	}
	return 0;
}
static void *ptr_of(int k, int off) { return array_get_at(MM->buddies, k - 1)->base_mem + off; }

/* live blocks from the real trees (same reading as the runtime: lowest zero ancestor) */
static void scan_blocks(void)
{
	nB = 0;
	for(array_count_t a = 0; a < array_count(MM->buddies); ++a) {
		const struct buddy_state *b = array_get_at(MM->buddies, a);
		struct {
			uint32_t i;
			uint8_t l;
		} st[128];
		int sp = 0;
		st[sp].i = 0;
		st[sp++].l = B_TOTAL_EXP;
		while(sp) {
			uint32_t n = st[--sp].i;
			uint8_t l = st[sp].l, lon = b->longest[n];
			int full_internal = !lon && l > B_BLOCK_EXP && !b->longest[buddy_left_child(n)] && !b->longest[buddy_right_child(n)];
			if(!lon && !full_internal) {
				B[nB].k = (int)a + 1;
				B[nB].off = (int)(((n + 1) << l) - (1 << B_TOTAL_EXP));
				B[nB++].exp = l;
			} else if((full_internal || lon != l) && l > B_BLOCK_EXP) {
				st[sp].i = buddy_right_child(n);
				st[sp++].l = l - 1;
				st[sp].i = buddy_left_child(n);
				st[sp++].l = l - 1;
			}
		}
	}
}

static const void *aid_ptr[256];
static int n_aid;
static int aid_of(const void *b)
{
	for(int i = 0; i < n_aid; ++i)
		if(aid_ptr[i] == b)
			return i + 1;
	aid_ptr[n_aid++] = b;
	return n_aid;
}

static void proj(void)
{
	scan_blocks();
	fprintf(out, ",\"proj\":{\"size\":%ld,\"arenas\":[", (long)MM->full_ckpt_size);
	for(array_count_t a = 0; a < array_count(MM->buddies); ++a) {
		const struct buddy_state *b = array_get_at(MM->buddies, a);
		fprintf(out, "%s{\"id\":%d,\"lon\":[", a ? "," : "", aid_of(b));
		unsigned nn = (1U << (B_TOTAL_EXP - B_BLOCK_EXP + 1)) - 1;
		for(unsigned i = 0; i < nn; ++i)
			fprintf(out, "%s%d", i ? "," : "", b->longest[i]);
		fprintf(out, "],\"blocks\":[");
		int first = 1;
		for(int j = 0; j < nB; ++j)
			if(B[j].k == (int)a + 1) {
				fprintf(out, "%s[%d,%d,%d]", first ? "" : ",", B[j].off, B[j].exp,
				    read_tag(ptr_of(B[j].k, B[j].off), 1U << B[j].exp));
				first = 0;
			}
		fprintf(out, "]}");
	}
	fprintf(out, "],\"refs\":[");
	for(array_count_t i = 0; i < array_count(MM->logs); ++i)
		fprintf(out, "%s%d", i ? "," : "", (int)array_get_at(MM->logs, i).ref_i);
	fprintf(out, "]}}\n");
}

static const char *cur_op = "init";
static void on_sig(int sig)
{
	/* a crash or a hang inside the allocator is a verdict, not a harness failure: report and stop */
	fprintf(out, "{\"e\":\"Crash\",\"sig\":%d,\"during\":\"%s\"}\n", sig, cur_op);
	fflush(out);
	_exit(0);
}

int main(int argc, char **argv)
{
	if(argc < 4)
		return 2;
	out = fopen(argv[1], "w");
	signal(SIGSEGV, on_sig);
	signal(SIGBUS, on_sig);
	signal(SIGABRT, on_sig);
	signal(SIGFPE, on_sig);
	signal(SIGALRM, on_sig);
	alarm(20);
	rs = strtoull(argv[2], NULL, 10) * 0x9E3779B97F4A7C15ULL + 12345;
	prs ^= rs;
	int nops = atoi(argv[3]);
	int max_arenas = argc > 4 ? atoi(argv[4]) : 4;
	global_config.log_level = LOG_SILENT;
	global_config.lps = 1;
	n_lps_node = 1;
	lps = &the_lp;
	current_lp = &the_lp;
	model_allocator_lp_init(MM);
	fprintf(out, "{\"e\":\"Cfg\",\"T\":%u,\"B\":%u,\"h0\":%d,\"ha\":%d}\n", (unsigned)B_TOTAL_EXP, (unsigned)B_BLOCK_EXP,
	    (int)(offsetof(struct mm_checkpoint, chkps) + sizeof(struct buddy_state *)), (int)offsetof(struct buddy_checkpoint, base_mem));
	int h = 1, tagc = 1;
	/* the runtime always has the initial checkpoint (process_lp_init) */
	model_allocator_checkpoint_take(MM, (array_count_t)h);
	fprintf(out, "{\"e\":\"Take\",\"ref\":%d", h);
	proj();
	const unsigned maxsz = 1U << B_TOTAL_EXP;
	for(int n = 0; n < nops; ++n) {
		unsigned r = (unsigned)(rnd() % 100);
		scan_blocks();
		int narenas = (int)array_count(MM->buddies);
		if(r < 30 || (nB == 0 && r < 60)) { /* malloc / calloc */
			unsigned req;
			unsigned q = (unsigned)(rnd() % 20);
			if(q == 0)
				req = 0;
			else if(q == 1)
				req = maxsz + 1 + (unsigned)(rnd() % 64);
			else if(q < 6)
				req = maxsz >> (rnd() % 3);
			else
				req = 1 + (unsigned)(rnd() % (maxsz / 2));
			if(narenas >= max_arenas && req > maxsz / 4 && req <= maxsz)
				req = 1 + (unsigned)(rnd() % (maxsz / 8));
			int cal = (int)(rnd() % 4 == 0);
			int before = narenas;
			cur_op = "malloc";
			/* over-size requests beyond 32 bits whose low word alone would be a legal (or zero) size: size_t is the argument type of the
			 * API; logged as 2^29 + low word (over-size for the specification as well, and within TLC's integers) */
			size_t req64 = req;
			int huge = q == 1 && rnd() % 2;
			if(huge) {
				unsigned low = rnd() % 3 ? 1 + (unsigned)(rnd() % maxsz) : 0;
				req64 = ((size_t)(1 + rnd() % 5) << (32 + rnd() % 8)) | low;
				req = (1U << 29) + low;
			}
			unsigned char *p = cal ? rs_calloc(1, req64) : rs_malloc(req64);
			int zero_ok = 1;
			int tag = tagc++;
			if(p && !huge) {
				if(cal)
					for(unsigned i = 0; i < req; ++i)
						if(p[i])
							zero_ok = 0;
				unsigned e = B_BLOCK_EXP;
				while((1U << e) < req)
					++e;
				fill(p, 1U << e, tag);
			}
			int k = p ? arena_of(p) : 0;
			int pos = (int)array_count(MM->buddies) > before ? k : 0;
			fprintf(out, "{\"e\":\"Malloc\",\"req\":%u,\"calloc\":%d,\"tag\":%d,\"res\":[%d,%d],\"pos\":%d,\"zero_ok\":%d", req, cal, tag, k,
			    p ? (int)(p - array_get_at(MM->buddies, k - 1)->base_mem) : -1, pos, zero_ok);
			proj();
			h++;
		} else if(r < 48) { /* free */
			if(!nB)
				continue;
			struct blk b = B[rnd() % (unsigned)nB];
			cur_op = "free";
			rs_free(ptr_of(b.k, b.off));
			fprintf(out, "{\"e\":\"Free\",\"k\":%d,\"off\":%d", b.k, b.off);
			proj();
			h++;
		} else if(r < 60) { /* realloc */
			if(!nB)
				continue;
			struct blk b = B[rnd() % (unsigned)nB];
			unsigned q = (unsigned)(rnd() % 12);
			unsigned req = q == 0 ? 0 : q == 1 ? maxsz + 1 + (unsigned)(rnd() % 64) : q == 2 ? maxsz : 1 + (unsigned)(rnd() % (maxsz / 2));
			if(narenas >= max_arenas && req > maxsz / 4)
				req = 1 + (unsigned)(rnd() % (maxsz / 8));
			unsigned char *old = ptr_of(b.k, b.off);
			int oldtag = read_tag(old, 1U << b.exp);
			int before = narenas;
			cur_op = "realloc";
			size_t req64 = req;
			int huge = q == 1 && rnd() % 2;
			if(huge) { /* as for malloc: beyond 32 bits, low word legal or zero */
				unsigned low = rnd() % 3 ? 1 + (unsigned)(rnd() % maxsz) : 0;
				req64 = ((size_t)(1 + rnd() % 5) << (32 + rnd() % 8)) | low;
				req = (1U << 29) + low;
			}
			unsigned char *p = rs_realloc(old, req64);
			int tag = tagc++;
			int pok = 1, k = 0;
			if(p && huge)
				k = arena_of(p);
			if(p && !huge) {
				unsigned keep = req < (1U << b.exp) ? req : (1U << b.exp);
				pok = prefix_ok(p, keep, oldtag);
				unsigned e = B_BLOCK_EXP;
				while((1U << e) < req)
					++e;
				fill(p, 1U << e, tag);
				k = arena_of(p);
			}
			int pos = (int)array_count(MM->buddies) > before ? k : 0;
			fprintf(out, "{\"e\":\"Realloc\",\"k\":%d,\"off\":%d,\"req\":%u,\"tag\":%d,\"res\":[%d,%d],\"pos\":%d,\"prefix_ok\":%d", b.k, b.off, req,
			    tag, k, p ? (int)(p - array_get_at(MM->buddies, k - 1)->base_mem) : -1, pos, pok);
			proj();
			h++;
		} else if(r < 70) { /* write */
			if(!nB)
				continue;
			struct blk b = B[rnd() % (unsigned)nB];
			int tag = tagc++;
			fill(ptr_of(b.k, b.off), 1U << b.exp, tag);
			fprintf(out, "{\"e\":\"Write\",\"k\":%d,\"off\":%d,\"tag\":%d", b.k, b.off, tag);
			proj();
			h++;
		} else if(r < 82) { /* checkpoint */
			int last = (int)array_get_at(MM->logs, array_count(MM->logs) - 1).ref_i;
			if(h <= last)
				h = last + 1;
			if(array_count(MM->logs) >= 5)
				continue;
			cur_op = "checkpoint";
			model_allocator_checkpoint_take(MM, (array_count_t)h);
			fprintf(out, "{\"e\":\"Take\",\"ref\":%d", h);
			proj();
		} else if(r < 94) { /* restore to any still-reachable history position */
			int first = (int)array_get_at(MM->logs, 0).ref_i;
			if(h < first)
				continue;
			int target = first + (int)(rnd() % (unsigned)(h - first + 1));
			cur_op = "restore";
			int ret = (int)model_allocator_checkpoint_restore(MM, (array_count_t)target);
			fprintf(out, "{\"e\":\"Restore\",\"target\":%d,\"ret\":%d", target, ret);
			proj();
			h = target;
		} else { /* fossil collection up to any position >= the oldest checkpoint */
			int first = (int)array_get_at(MM->logs, 0).ref_i;
			if(h < first)
				continue;
			int tgt = first + (int)(rnd() % (unsigned)(h - first + 1));
			cur_op = "fossil";
			int ret = (int)model_allocator_fossil_lp_collect(MM, (array_count_t)tgt);
			fprintf(out, "{\"e\":\"Fossil\",\"tgt\":%d,\"ret\":%d", tgt, ret);
			proj();
			h -= ret;
		}
	}
	fprintf(out, "{\"e\":\"End\"}\n");
	fclose(out);
	return 0;
}
