#!/bin/sh
# offline setup: nothing to fetch; checks rebuild everything they need from /repo and /verif
set -e
cd "$(dirname "$0")"
command -v tlc >/dev/null
command -v gcc >/dev/null
python3 -c "import json"
echo setup ok
