---------------------------- MODULE RandomTrace ----------------------------
(***************************************************************************)
(* C18 bound to the code: harness/randdrv.c crafts generator states whose  *)
(* next raw output is a chosen 64-bit word (0, 1, 2^k, 2^k +- 1, 2^64 - 1, *)
(* sequential states) and calls the real Random(); it also calls the       *)
(* derived distributions with arguments of the documented domain.          *)
(* Verdict: the IEEE bits returned equal RandomBits (hence value in [0,1));*)
(* range contracts; only the calling LP's generator advances.              *)
(***************************************************************************)
EXTENDS RandomBits, TLC, Json, IOUtils, FiniteSets

TraceLog == ndJsonDeserialize(IOEnv.TRACE)
VARIABLES l, bad
Line == TraceLog[l]
MaxBad == 200
Add(cs) == LET f == SelectSeq(cs, LAMBDA c : ~c[1]) IN
           IF Len(bad) >= MaxBad THEN bad ELSE bad \o [i \in 1..Len(f) |-> [p |-> "C18", w |-> f[i][2], at |-> l]]
\* IEEE-754 double as 64 bits: sign, 11 exponent bits, 52 mantissa bits
ExpBits(n) == [k \in 1..11 |-> (n \div (2 ^ (11 - k))) % 2]
Expected(u) == IF IsZero(u) THEN [k \in 1..64 |-> 0]
               ELSE <<0>> \o ExpBits(Exponent(u, 1023)) \o Mantissa(u, 52)

TInit == l = 1 /\ bad = <<>> /\ TLCSet(1, 0) /\ TLCSet(2, <<>>)
TRandom ==
  /\ l <= Len(TraceLog) /\ Line.e = "Random" /\ l' = l + 1
  /\ bad' = Add(<< <<Line.res = Expected(Line.u), "Random() returned different bits than the leading-zero conversion (value outside [0,1) or wrong)">>,
                  <<InUnitInterval(Line.u, 1023), "Random() outside [0,1)">>,
                  <<Line.others_same = 1, "Random() advanced the generator of another LP">>,
                  <<Line.own_changed = 1, "Random() did not advance the calling LP's generator">> >>)
TRange ==
  /\ l <= Len(TraceLog) /\ Line.e = "Range" /\ l' = l + 1
  /\ bad' = Add(<< <<Line.r >= Line.min /\ Line.r <= Line.max, Line.fn \o " outside its range">>,
                  <<Line.others_same = 1, Line.fn \o " advanced the generator of another LP">> >>)
TReal ==
  /\ l <= Len(TraceLog) /\ Line.e = "Real" /\ l' = l + 1
  /\ bad' = Add(<< <<Line.finite = 1 /\ Line.nonneg = 1, Line.fn \o " is not finite and non-negative">>,
                  <<Line.others_same = 1, Line.fn \o " advanced the generator of another LP">> >>)
TCrash ==
  /\ l <= Len(TraceLog) /\ Line.e = "Crash" /\ l' = l + 1
  /\ bad' = bad \o <<[p |-> "C18", w |-> "numerical library crashed or did not return", at |-> l]>>
TEnd == l <= Len(TraceLog) /\ Line.e = "End" /\ l' = l + 1 /\ UNCHANGED bad
TSpec == TInit /\ [][TRandom \/ TRange \/ TReal \/ TCrash \/ TEnd]_<<l, bad>>
Progress == TLCSet(1, IF l > TLCGet(1) THEN l ELSE TLCGet(1)) /\ (bad # <<>> => TLCSet(2, bad))
Post == PrintT(<<"RESULT", TLCGet(1) - 1, Len(TraceLog), TLCGet(2)>>)
=============================================================================
