------------------------------- MODULE Order -------------------------------
(***************************************************************************)
(* The event order of ROOT-Sim/core (src/lp/msg.h msg_is_before,           *)
(* msg_is_before_extended; src/datatypes/msg_queue.c q_elem_is_before).    *)
(* An event is a record [t, anti, ty, sz, pl]: timestamp, cancellation     *)
(* flag (0/1), type, payload size and payload bytes (a sequence of sz      *)
(* naturals < 256).                                                        *)
(***************************************************************************)
EXTENDS Naturals, Sequences

\* memcmp(a, b, n) > 0 : first differing byte is larger in a
MemcmpGT(a, b, n) ==
  \E i \in 1..n : /\ \A j \in 1..(i-1) : a[j] = b[j]
                  /\ a[i] > b[i]

\* msg_is_before_extended: anti-messages first, then LARGER type first, then SMALLER payload
\* first, then the payload that compares greater first
BeforeExt(a, b) ==
  IF a.anti # b.anti THEN a.anti > b.anti
  ELSE IF a.ty # b.ty THEN a.ty > b.ty
  ELSE IF a.sz # b.sz THEN a.sz < b.sz
  ELSE MemcmpGT(a.pl, b.pl, a.sz)

Before(a, b) == a.t < b.t \/ (a.t = b.t /\ BeforeExt(a, b))

Incomparable(a, b) == ~Before(a, b) /\ ~Before(b, a)

\* the content on which the order may depend
Content(a) == <<a.t, a.anti, a.ty, a.sz, a.pl>>

(***************************************************************************)
(* Strict weak order laws (property C16), stated over a set E of events.   *)
(***************************************************************************)
Irreflexive(E) == \A a \in E : ~Before(a, a)
Asymmetric(E) == \A a, b \in E : Before(a, b) => ~Before(b, a)
Transitive(E) == \A a, b, c \in E : Before(a, b) /\ Before(b, c) => Before(a, c)
IncompTransitive(E) ==
  \A a, b, c \in E : Incomparable(a, b) /\ Incomparable(b, c) => Incomparable(a, c)
\* incomparable events have equal content: the tie-break is total on content
IncompIsEqualContent(E) == \A a, b \in E : Incomparable(a, b) => Content(a) = Content(b)
StrictWeakOrder(E) ==
  Irreflexive(E) /\ Asymmetric(E) /\ Transitive(E) /\ IncompTransitive(E)
=============================================================================
