----------------------------- MODULE TimeWarpMC -----------------------------
(***************************************************************************)
(* Exhaustive exploration of the TimeWarp actions on micro-models: every   *)
(* interleaving of the shared-memory accesses of two worker threads (inbox *)
(* CAS push, inbox exchange, the three fetch_add on the flag word) with    *)
(* the control flow of process_msg / do_rollback / send_anti_messages      *)
(* transcribed from src/lp/process.c.  The parametrised actions and their  *)
(* property checks are those of TimeWarp.tla (the same ones the trace      *)
(* validation binds to the real code); here the parameters are computed as *)
(* the code computes them.  GVT, fossil collection and termination are     *)
(* left out of this configuration (no commit: the run ends at quiescence). *)
(*                                                                         *)
(* Checked: every property check of every action taken (C05 exact state    *)
(* after rollback, C06 life cycle / exactly-once, C14, C15), and at        *)
(* quiescence C01: every LP's history is the sequential history.           *)
(* Partial-order reduction: a thread inside a thread-private step runs     *)
(* first (private steps commute with every step of the other threads).     *)
(***************************************************************************)
EXTENDS Naturals, Integers, Sequences, FiniteSets, TLC, Json

CONSTANTS ThreadsC,  \* set of threads
          NLpC,      \* number of LPs
          OwnerOf,   \* OwnerOf[lp]: owning thread
          InitEv,    \* sequence of initial events [lp, t, ty, pid] (scheduled by LP_INIT of .src)
          Trans,     \* Trans[s+1][ty] = [ns, sends]; sends: seq of [off, delay, ty, pid] (destination = me + off); types 1..
          MaxMsg,    \* size of the message pool (ids 1..MaxMsg, recycled smallest first)
          CkptEvery, \* checkpoint interval (events)
          RecordSched, \* TRUE: carry the order of the shared accesses as a history (for replaying behaviours in the real code)
          MaxGvt     \* number of GVT values handed out (0: no GVT, no fossil collection); a value is any safe lower bound

VARIABLES msg, hist, base, ckpt, owner, rb, cpos, cheld, termT, gvtSeen, gvtCnt, gvtVals, finiLp, finiQ, votes,
          stopped, exited, hand, voted, maxDecl, mustVote, announced, net, rx, lastNm, early,
          pc,     \* thr -> control location
          loc,    \* thr -> locals of process_msg / do_rollback
          lpst,   \* lp -> abstract model state [s, cnt]
          snap,   \* lp -> model states saved by the checkpoints (aligned with ckpt[lp])
          crem,   \* lp -> events until the next checkpoint
          fneed,  \* lp -> a GVT arrived since the last fossil collection of the LP (fossil_is_needed)
          rseq,   \* thr -> rank -> number of messages put on the network for that rank (remote_msg_seq of gvt.h)
          err,    \* a property check of an action failed: <<property, label>>
          sched   \* history: the shared accesses taken so far, <<thread, kind>> (only when RecordSched)

TW == INSTANCE TimeWarp WITH Threads <- ThreadsC, NLp <- NLpC, Inf <- 1000000
twvars == <<msg, hist, base, ckpt, owner, rb, cpos, cheld, termT, gvtSeen, gvtCnt, gvtVals, finiLp, finiQ, votes,
            stopped, exited, hand, voted, maxDecl, mustVote, announced, net, rx, lastNm, early>>
mcvars == <<pc, loc, lpst, snap, crem, fneed, rseq, err>>
vars == <<twvars, mcvars, sched>>

LPs == 0..(NLpC - 1)
\* threads are numbered rank * 8 + rid (as in the traces of the multi-rank harness)
RankOf(r) == r \div 8
Ranks == {RankOf(r) : r \in ThreadsC}
Remote(r, p) == RankOf(OwnerOf[p]) # RankOf(r)
NoLoc == [lp |-> -1, m |-> 0, old |-> 0, past |-> 0, i |-> 0, sends |-> <<>>, after |-> "none", t |-> 0, fl |-> <<>>]
Ghost(st) == [s |-> st.s, cnt |-> st.cnt, a |-> 0, b |-> 0, blk |-> 0]

\* the event order (src/lp/msg.h): smaller time, then LARGER type, then smaller payload id
Before(a, b) == a.t < b.t \/ (a.t = b.t /\ (a.ty > b.ty \/ (a.ty = b.ty /\ a.pid < b.pid)))

FreeId == CHOOSE i \in 1..MaxMsg : i \notin DOMAIN msg /\ \A j \in 1..(i - 1) : j \in DOMAIN msg
PoolOk == \E i \in 1..MaxMsg : i \notin DOMAIN msg

\* a step of TimeWarp with its checks; a failed check is recorded (and is the counterexample)
Do(cs, A) == A /\ err' = IF err = <<>> /\ TW!Failed(cs) # <<>> THEN <<TW!Failed(cs)[1][2], TW!Failed(cs)[1][3]>> ELSE err

Goto(r, l, newloc) == pc' = [pc EXCEPT ![r] = l] /\ loc' = [loc EXCEPT ![r] = newloc]

(* ---------------- initialisation: LP_INIT of every LP by its owner, then the initial events ---------------- *)
Init ==
  /\ TW!Init
  /\ pc = [r \in ThreadsC |-> "init"]
  /\ loc = [r \in ThreadsC |-> NoLoc]
  /\ lpst = [p \in LPs |-> [s |-> 0, cnt |-> 0]]
  /\ snap = [p \in LPs |-> <<>>]
  /\ crem = [p \in LPs |-> 0]
  /\ fneed = [p \in LPs |-> FALSE]
  /\ rseq = [r \in ThreadsC |-> [k \in Ranks |-> 0]]
  /\ err = <<>>
  /\ sched = <<>>

\* process_lp_init: the LP_INIT handler runs first and schedules the initial events of the LP (recorded in its
\* history as sent marks), then the LP_INIT message itself becomes a history entry and the first checkpoint is taken
NextInitLp(r) == {p \in LPs : OwnerOf[p] = r /\ owner[p] = -1}
InitStart(r) ==
  /\ pc[r] = "init" /\ NextInitLp(r) # {}
  /\ LET p == TW!Min(NextInitLp(r)) IN
       Goto(r, "sched", [NoLoc EXCEPT !.sends = SelectSeq(InitEv, LAMBDA e : e.src = p), !.after = "initlp", !.lp = p])
  /\ UNCHANGED <<twvars, lpst, snap, crem, fneed, rseq, err>>
InitLp(r) ==
  /\ pc[r] = "initlp" /\ PoolOk
  /\ LET p == loc[r].lp
         m == FreeId IN
     /\ msg' = TW!Put(msg, m, [lp |-> p, t |-> 0, ty |-> 65534, pid |-> -1, flags |-> 2, inq |-> "none", q |-> r, src |-> -1,
                               rem |-> FALSE, sq |-> 0, nm |-> 0, pnm |-> 0])
     /\ hist' = [hist EXCEPT ![p] = Append(@, [k |-> "e", m |-> m, t |-> 0, ty |-> 65534, pid |-> -1, g |-> Ghost(lpst[p]), pred |-> FALSE])]
     /\ owner' = [owner EXCEPT ![p] = r]
     /\ ckpt' = [ckpt EXCEPT ![p] = <<[ref |-> Len(hist[p]) + 1, size |-> 0]>>]
     /\ snap' = [snap EXCEPT ![p] = <<lpst[p]>>]
  /\ Goto(r, "init", NoLoc)
  /\ UNCHANGED <<base, rb, cpos, cheld, termT, gvtSeen, gvtCnt, gvtVals, finiLp, finiQ, votes, stopped, exited, hand, voted, maxDecl,
                 mustVote, announced, net, rx, lastNm, early, lpst, crem, fneed, rseq, err>>
\* barrier after lp_init: the main loop starts once every LP exists
AllInited == \A p \in LPs : owner[p] # -1
InitDone(r) ==
  /\ pc[r] = "init" /\ NextInitLp(r) = {} /\ AllInited
  /\ Goto(r, "idle", NoLoc)
  /\ UNCHANGED <<twvars, lpst, snap, crem, fneed, rseq, err>>

(* ---------------- ScheduleNewEvent: alloc, CAS push (shared), record in the sender's history ---------------- *)
SchedAlloc(r) ==
  /\ pc[r] = "sched" /\ loc[r].sends # <<>> /\ PoolOk
  /\ LET m == FreeId IN
     /\ Do(TW!AllocChecks(r, m), TW!Alloc(r, m))
     /\ Goto(r, "push", [loc[r] EXCEPT !.m = m])
  /\ UNCHANGED <<lpst, snap, crem, fneed, rseq>>
\* the network: per (sender thread, destination rank) FIFO (MPI non-overtaking).  A network identity is never reused (it is the
\* ghost "true identity" of a send) and does not depend on the interleaving: (sender thread, destination rank, position in the stream)
NetId(r, k) == (r * 4 + k) * 64 + rseq[r][k] + 1
NetOk == TRUE
SchedPush(r) ==
  /\ pc[r] = "push"
  /\ LET e == Head(loc[r].sends)
         c == [lp |-> e.lp, t |-> e.t, ty |-> e.ty, pid |-> e.pid]
         k == RankOf(OwnerOf[e.lp]) IN
     /\ IF Remote(r, e.lp)
        THEN \* mpi_remote_msg_send: gvt_remote_msg_send stamps identity and sequence number, MPI_Isend
             LET x == [kind |-> "ev", t |-> e.t, id |-> 4 * (r + 1), sq |-> 2 * rseq[r][k], src |-> r, nm |-> NetId(r, k), lp |-> e.lp, ty |-> e.ty,
                       pid |-> e.pid, ord |-> rseq[r][k], to |-> k, pnm |-> 0] IN
             /\ NetOk
             /\ Do(TW!NetSendChecks(r, x.nm, x), TW!NetSend(r, x.nm, x))
             /\ rseq' = [rseq EXCEPT ![r][k] = @ + 1]
        ELSE /\ Do(TW!PushChecks(r, loc[r].m, OwnerOf[e.lp], c), TW!Push(r, loc[r].m, OwnerOf[e.lp], c))
             /\ UNCHANGED rseq
     /\ Goto(r, "sent", loc[r])
  /\ UNCHANGED <<lpst, snap, crem, fneed>>
SchedSent(r) ==
  /\ pc[r] = "sent"
  /\ LET e == Head(loc[r].sends)
         c == [lp |-> e.lp, t |-> e.t, ty |-> e.ty, pid |-> e.pid] IN
     /\ IF Remote(r, e.lp)
        THEN Do(TW!SendRemoteChecks(r, e.src, loc[r].m, c), TW!SendRemote(r, e.src, loc[r].m, c))
        ELSE Do(TW!SendChecks(r, e.src, loc[r].m), TW!Send(r, e.src, loc[r].m))
     /\ Goto(r, "sched", [loc[r] EXCEPT !.sends = Tail(@), !.m = 0])
  /\ UNCHANGED <<lpst, snap, crem, fneed, rseq>>

(* ---------------- mpi_remote_msg_handle: any thread of the destination rank receives, allocates, inserts ---------------- *)
Receivable(r) == {nm \in DOMAIN net : net[nm].to = RankOf(r) /\ \A o \in DOMAIN net : (net[o].src = net[nm].src /\ net[o].to = net[nm].to) => net[o].ord >= net[nm].ord}
RecvStep(r) ==
  /\ pc[r] = "idle"
  /\ \E nm \in Receivable(r) : Do(TW!NetRecvChecks(r, nm), TW!NetRecv(r, nm))
  /\ Goto(r, "rxalloc", NoLoc)
  /\ UNCHANGED <<lpst, snap, crem, fneed, rseq>>
RxAlloc(r) ==
  /\ pc[r] = "rxalloc" /\ PoolOk
  /\ Do(TW!AllocChecks(r, FreeId), TW!Alloc(r, FreeId))
  /\ Goto(r, "rxpush", [NoLoc EXCEPT !.m = FreeId])
  /\ UNCHANGED <<lpst, snap, crem, fneed, rseq>>
RxPush(r) ==
  /\ pc[r] = "rxpush"
  /\ LET c == [lp |-> rx[r].lp, t |-> rx[r].t, ty |-> rx[r].ty, pid |-> rx[r].pid] IN
     Do(TW!PushChecks(r, loc[r].m, OwnerOf[c.lp], c), TW!Push(r, loc[r].m, OwnerOf[c.lp], c))
  /\ Goto(r, "idle", NoLoc)
  /\ UNCHANGED <<lpst, snap, crem, fneed, rseq>>
SchedEnd(r) ==
  /\ pc[r] = "sched" /\ loc[r].sends = <<>>
  /\ Goto(r, loc[r].after, [loc[r] EXCEPT !.after = "none"])
  /\ UNCHANGED <<twvars, lpst, snap, crem, fneed, rseq, err>>

(* ---------------- process_msg ---------------- *)
\* msg_queue_extract: exchange of the inbox (shared), then pop the minimum of the private heap
DrainStep(r) ==
  /\ pc[r] = "idle" /\ TW!InboxOf(r) # {}
  /\ Do(TW!DrainChecks(r, Cardinality(TW!InboxOf(r))), TW!Drain(r, Cardinality(TW!InboxOf(r))))
  /\ Goto(r, "pop", NoLoc)
  /\ UNCHANGED <<lpst, snap, crem, fneed, rseq>>
EvOf(m) == [t |-> msg[m].t, ty |-> msg[m].ty, pid |-> msg[m].pid]
\* q_elem_is_before: anti-messages first at equal time, then the content order
QBefore(a, b) ==
  \/ msg[a].t < msg[b].t
  \/ /\ msg[a].t = msg[b].t
     /\ \/ (TW!HasAnti(msg[a].flags) /\ ~TW!HasAnti(msg[b].flags))
        \/ (TW!HasAnti(msg[a].flags) = TW!HasAnti(msg[b].flags) /\ Before(EvOf(a), EvOf(b)))
PopStep(r) ==
  /\ pc[r] \in {"idle", "pop"} /\ (pc[r] = "idle" => TW!InboxOf(r) = {}) /\ TW!HeapOf(r) # {}
  /\ \E m \in TW!HeapOf(r) :
       /\ \A x \in TW!HeapOf(r) : ~QBefore(x, m)
       /\ Do(TW!ExtractChecks(r, m), TW!Extract(r, m))
       /\ Goto(r, IF fneed[msg[m].lp] THEN "fossil" ELSE "flag", [NoLoc EXCEPT !.m = m, !.lp = msg[m].lp])
  /\ UNCHANGED <<lpst, snap, crem, fneed, rseq>>
PopNone(r) == pc[r] = "pop" /\ TW!HeapOf(r) = {} /\ Goto(r, "idle", NoLoc) /\ UNCHANGED <<twvars, lpst, snap, crem, fneed, rseq, err>>

\* index arithmetic of match_straggler_msg / match_anti_msg (0-based C indexes; entry j of hist is C index j-1)
RECURSIVE MS(_, _, _)
MS(p, m, i) == IF i = 0 THEN 0
               ELSE LET e == hist[p][i] IN  \* C index i-1
                    \* (msg_is_before looks at the cancellation flag first: an entry cancelled in place by its sender stops the scan at equal timestamps)
                    IF e.k # "e" \/ (Before(EvOf(m), [t |-> e.t, ty |-> e.ty, pid |-> e.pid]) /\ ~(msg[m].t = e.t /\ TW!HasAnti(msg[e.m].flags)))
                    THEN MS(p, m, i - 1) ELSE i
MatchStraggler(p, m) == MS(p, m, Len(hist[p]) - 1)
RECURSIVE MA(_, _)
MA(p, i) == IF i = 0 THEN 0 ELSE IF hist[p][i].k = "e" THEN i ELSE MA(p, i - 1)
MatchAnti(p, m) == LET j == CHOOSE x \in TW!IdxOf(p, "e", m) : TRUE IN MA(p, j - 1)
LastE(p) == hist[p][Len(hist[p])]

\* fetch_add(PROCESSED) (shared) and the branch on the previous value
FlagStep(r) ==
  /\ pc[r] = "flag"
  /\ LET m == loc[r].m
         p == loc[r].lp
         f == msg[m].flags IN
     /\ Do(TW!FlagChecks(r, m, f), TW!Flag(r, m, f))
     /\ IF TW!HasAnti(f)
        THEN IF f > 3 THEN Goto(r, "ranti", loc[r])    \* handle_remote_anti_msg
             ELSE IF f = 3 THEN Goto(r, "rbbegin", [loc[r] EXCEPT !.past = MatchAnti(p, m), !.after = "free", !.t = msg[m].t])
             ELSE Goto(r, "free", loc[r])
        ELSE IF f # 0 /\ \E am \in early[p] : TW!SameRemote(m, am)   \* check_early_anti_messages
             THEN Goto(r, "ematch", loc[r])
        \* (msg_is_before compares the cancellation flags first: against a last entry that its sender cancelled in place at the same timestamp
        \* the new event is NOT a straggler; it is executed after it and undone together with it when the anti-message copy arrives)
        ELSE IF hist[p] # <<>> /\ Before(EvOf(m), [t |-> LastE(p).t, ty |-> LastE(p).ty, pid |-> LastE(p).pid])
                /\ ~(msg[m].t = LastE(p).t /\ TW!HasAnti(msg[LastE(p).m].flags))
             THEN Goto(r, "rbbegin", [loc[r] EXCEPT !.past = MatchStraggler(p, m), !.after = "exec", !.t = msg[m].t])
             ELSE Goto(r, "exec", loc[r])
  /\ UNCHANGED <<lpst, snap, crem, fneed, rseq>>

\* handle_remote_anti_msg: newest history entry with the identity of the anti-message; none: it is early
RAntiStep(r) ==
  /\ pc[r] = "ranti"
  /\ LET p == loc[r].lp
         am == loc[r].m
         J == {i \in 1..Len(hist[p]) : hist[p][i].k = "e" /\ TW!SameRemote(hist[p][i].m, am)} IN
     IF J = {}
     THEN /\ Do(TW!EarlyStoreChecks(r, p, am), TW!EarlyStore(r, p, am))
          /\ Goto(r, "idle", NoLoc)
     ELSE LET j == TW!Max(J)
              x == hist[p][j].m
              past == MA(p, j - 1) IN
          /\ Do(TW!RAntiMatchChecks(r, p, x, am, past), TW!RAntiMatch(r, p, x, am, past))
          /\ Goto(r, "rbbegin", [loc[r] EXCEPT !.past = past, !.after = "free2", !.old = x, !.t = msg[am].t])
  /\ UNCHANGED <<lpst, snap, crem, fneed, rseq>>
\* check_early_anti_messages: the event meets its parked anti-message
EMatchStep(r) ==
  /\ pc[r] = "ematch"
  /\ LET p == loc[r].lp
         m == loc[r].m
         am == CHOOSE a \in early[p] : TW!SameRemote(m, a) IN
     /\ Do(TW!EarlyMatchChecks(r, p, m, am), TW!EarlyMatch(r, p, m, am))
     \* (the code releases the event first, then the anti-message)
     /\ Goto(r, "free2", [loc[r] EXCEPT !.old = m, !.m = am])
  /\ UNCHANGED <<lpst, snap, crem, fneed, rseq>>
Free2Step(r) ==
  /\ pc[r] = "free2"
  /\ Do(TW!FreeChecks(r, loc[r].old), TW!Free(r, loc[r].old))
  /\ Goto(r, "free", [loc[r] EXCEPT !.old = 0])
  /\ UNCHANGED <<lpst, snap, crem, fneed, rseq>>

FreeStep(r) ==
  /\ pc[r] = "free"
  /\ Do(TW!FreeChecks(r, loc[r].m), TW!Free(r, loc[r].m))
  /\ Goto(r, "idle", NoLoc)
  /\ UNCHANGED <<lpst, snap, crem, fneed, rseq>>

(* ---------------- do_rollback ---------------- *)
RbBeginStep(r) ==
  /\ pc[r] = "rbbegin"
  /\ Do(TW!RbBeginChecks(r, loc[r].lp, loc[r].past), TW!RbBegin(r, loc[r].lp, loc[r].past))
  /\ Goto(r, "rbloop", [loc[r] EXCEPT !.i = loc[r].past + 1])
  /\ UNCHANGED <<lpst, snap, crem, fneed, rseq>>
\* send_anti_messages: one shared access per entry, then (when due) the re-insertion
RbEntry(r) ==
  /\ pc[r] = "rbloop" /\ loc[r].i <= Len(hist[loc[r].lp])
  /\ LET e == hist[loc[r].lp][loc[r].i]
         f == msg[e.m].flags IN
     IF e.k = "r"
     THEN \* mpi_remote_anti_msg_send: the anti-message carries the identity and the sequence number of the cancelled send
          LET k == RankOf(OwnerOf[msg[e.m].lp])
              x == [kind |-> "anti", t |-> msg[e.m].t, id |-> msg[e.m].flags, sq |-> msg[e.m].sq, src |-> r, nm |-> NetId(r, k), lp |-> msg[e.m].lp, ty |-> 0,
                    pid |-> -1, ord |-> rseq[r][k], to |-> k, pnm |-> msg[e.m].nm] IN
          /\ NetOk
          /\ Do(TW!NetSendChecks(r, x.nm, x), TW!NetSend(r, x.nm, x))
          /\ rseq' = [rseq EXCEPT ![r][k] = @ + 1]
          /\ Goto(r, "rbanti", [loc[r] EXCEPT !.m = e.m])
          /\ UNCHANGED <<lpst, snap, crem, fneed>>
     ELSE IF e.k = "s"
     THEN /\ Do(TW!AntiLocalChecks(r, e.m, f), TW!AntiLocal(r, e.m, f))
          /\ IF TW!AntiNeedsInsert(f) THEN Goto(r, "rbins", [loc[r] EXCEPT !.m = e.m]) ELSE Goto(r, "rbloop", [loc[r] EXCEPT !.i = @ + 1])
          /\ UNCHANGED <<lpst, snap, crem, fneed, rseq>>
     ELSE /\ Do(TW!UndoChecks(r, e.m, f), TW!Undo(r, e.m, f))
          /\ IF TW!UndoNeedsInsert(f) THEN Goto(r, "rbins", [loc[r] EXCEPT !.m = e.m]) ELSE Goto(r, "rbloop", [loc[r] EXCEPT !.i = @ + 1])
          /\ UNCHANGED <<lpst, snap, crem, fneed, rseq>>
\* msg_allocator_free_at_gvt: the sender's buffer of the cancelled remote send is released when the GVT passes it
RbAnti(r) ==
  /\ pc[r] = "rbanti"
  /\ Do(TW!AntiRemoteChecks(r, loc[r].m), TW!AntiRemote(r, loc[r].m))
  /\ Goto(r, "rbloop", [loc[r] EXCEPT !.i = @ + 1, !.m = hand[r]])
  /\ UNCHANGED <<lpst, snap, crem, fneed, rseq>>
RbInsert(r) ==
  /\ pc[r] = "rbins"
  /\ LET m == loc[r].m
         c == [lp |-> msg[m].lp, t |-> msg[m].t, ty |-> msg[m].ty, pid |-> msg[m].pid] IN
     Do(TW!PushChecks(r, m, OwnerOf[msg[m].lp], c), TW!Push(r, m, OwnerOf[msg[m].lp], c))
  /\ Goto(r, "rbloop", [loc[r] EXCEPT !.i = @ + 1, !.m = hand[r]])
  /\ UNCHANGED <<lpst, snap, crem, fneed, rseq>>
\* model_allocator_checkpoint_restore + silent_execution: newest checkpoint not after `past', coast forward
NewestCk(p, past) == TW!Max({k \in 1..Len(ckpt[p]) : ckpt[p][k].ref <= past})
RECURSIVE Coast(_, _, _, _)
Coast(p, st, i, past) ==   \* re-execute the events among entries i+1..past
  IF i >= past THEN st
  ELSE LET e == hist[p][i + 1] IN
       Coast(p, IF e.k = "e" THEN [s |-> Trans[st.s + 1][e.ty].ns, cnt |-> st.cnt + 1] ELSE st, i + 1, past)
RbRestore(r) ==
  /\ pc[r] = "rbloop" /\ loc[r].i > Len(hist[loc[r].lp])
  /\ LET p == loc[r].lp
         past == loc[r].past
         k == NewestCk(p, past)
         last == ckpt[p][k].ref IN
     /\ Do(TW!RestoreChecks(r, p, last, past), TW!Restore(r, p, last, past))
     /\ lpst' = [lpst EXCEPT ![p] = Coast(p, snap[p][k], last, past)]
     /\ snap' = [snap EXCEPT ![p] = SubSeq(@, 1, k)]
     /\ crem' = [crem EXCEPT ![p] = 0]
  /\ Goto(r, "rbend", loc[r]) /\ UNCHANGED <<fneed, rseq>>
RbEndStep(r) ==
  /\ pc[r] = "rbend"
  /\ Do(TW!RbEndChecks(r, loc[r].lp, Ghost(lpst[loc[r].lp]), 0, 0), TW!RbEnd(r, loc[r].lp, Ghost(lpst[loc[r].lp])))
  /\ Goto(r, loc[r].after, [loc[r] EXCEPT !.m = hand[r]])
  /\ UNCHANGED <<lpst, snap, crem, fneed, rseq>>

(* ---------------- forward execution ---------------- *)
ExecStep(r) ==
  /\ pc[r] = "exec"
  /\ LET m == loc[r].m
         p == loc[r].lp
         tr == Trans[lpst[p].s + 1][msg[m].ty]
         ns == [s |-> tr.ns, cnt |-> lpst[p].cnt + 1]
         sends == [i \in 1..Len(tr.sends) |-> [lp |-> (p + tr.sends[i].off) % NLpC, t |-> msg[m].t + tr.sends[i].delay, ty |-> tr.sends[i].ty,
                                                pid |-> tr.sends[i].pid, src |-> p]] IN
     /\ lpst' = [lpst EXCEPT ![p] = ns]
     \* the handler runs first and schedules its events; the event itself is pushed to the history afterwards
     /\ Goto(r, "sched", [loc[r] EXCEPT !.sends = sends, !.after = "execdone"])
  /\ UNCHANGED <<twvars, snap, crem, fneed, rseq, err>>
ExecDone(r) ==
  /\ pc[r] = "execdone"
  /\ LET p == loc[r].lp
         m == hand[r] IN
     /\ Do(TW!ExecChecks(r, p, m, 0, 0), TW!Exec(r, p, m, Ghost(lpst[p]), FALSE))
     /\ IF crem[p] + 1 >= CkptEvery
        THEN Goto(r, "ckpt", loc[r]) /\ crem' = [crem EXCEPT ![p] = 0]
        ELSE Goto(r, "idle", NoLoc) /\ crem' = [crem EXCEPT ![p] = @ + 1]
  /\ UNCHANGED <<lpst, snap, fneed, rseq>>
CkptStep(r) ==
  /\ pc[r] = "ckpt"
  /\ LET p == loc[r].lp IN
     /\ Do(TW!CkptChecks(r, p, Len(hist[p]), 0), TW!Ckpt(r, p, Len(hist[p]), 0))
     /\ snap' = [snap EXCEPT ![p] = Append(@, lpst[p])]
  /\ Goto(r, "idle", NoLoc)
  /\ UNCHANGED <<lpst, crem, fneed, rseq>>

\* the sequential execution of the micro-model (reference), as a recursive computation
PendInit == {[lp |-> InitEv[i].lp, t |-> InitEv[i].t, ty |-> InitEv[i].ty, pid |-> InitEv[i].pid, n |-> i] : i \in 1..Len(InitEv)}
RECURSIVE SeqRun(_, _, _, _)
SeqRun(pend, st, hs, n) ==
  IF pend = {} THEN hs
  ELSE LET e == CHOOSE x \in pend : \A y \in pend : ~Before(y, x) /\ (~Before(x, y) => x.n <= y.n)
           tr == Trans[st[e.lp].s + 1][e.ty]
           new == {[lp |-> (e.lp + tr.sends[i].off) % NLpC, t |-> e.t + tr.sends[i].delay, ty |-> tr.sends[i].ty, pid |-> tr.sends[i].pid, n |-> n + i] : i \in 1..Len(tr.sends)} IN
       SeqRun((pend \ {e}) \cup new, [st EXCEPT ![e.lp] = [s |-> tr.ns, cnt |-> @.cnt + 1]],
              [hs EXCEPT ![e.lp] = Append(@, [t |-> e.t, ty |-> e.ty, pid |-> e.pid, s |-> tr.ns])], n + Len(tr.sends))
SeqHist == SeqRun(PendInit, [p \in LPs |-> [s |-> 0, cnt |-> 0]], [p \in LPs |-> <<>>], Len(InitEv))

(* ---------------- GVT hand-over (abstract: any safe lower bound) and fossil collection ---------------- *)
\* a GVT value reaches thread r between two events; all threads get the same value in a round (the algorithm that computes
\* it is GvtRound.tla); here any value not above the true minimum of what is pending may be chosen
GvtHorizon == 6   \* values beyond every timestamp of the micro-models behave alike
GvtTick(r) ==
  /\ MaxGvt > 0 /\ pc[r] = "idle" /\ hand[r] = 0 /\ gvtCnt[r] < MaxGvt
  /\ \E g \in 1..(IF TW!PendingMin > GvtHorizon THEN GvtHorizon ELSE TW!PendingMin) :
       /\ g > gvtSeen[r]
       /\ IF gvtCnt[r] + 1 <= Len(gvtVals) THEN g = gvtVals[gvtCnt[r] + 1] ELSE g > TW!LastGvt
       /\ Do(TW!GvtChecks(r, g), TW!Gvt(r, g))
  /\ fneed' = [p \in LPs |-> IF OwnerOf[p] = r THEN TRUE ELSE fneed[p]]
  /\ UNCHANGED <<pc, loc, lpst, snap, crem, rseq>>
\* msg_allocator_on_gvt: the buffers of remote sends cancelled by this thread are released once the GVT has passed them
AtGvtOf(r) == {m \in DOMAIN msg : msg[m].inq = "atgvt" /\ msg[m].q = r /\ msg[m].t < gvtSeen[r]}
AtGvtStep(r) ==
  /\ MaxGvt > 0 /\ pc[r] = "idle" /\ AtGvtOf(r) # {}
  /\ LET m == TW!Min(AtGvtOf(r)) IN Do(TW!FreeChecks(r, m), TW!Free(r, m))
  /\ UNCHANGED <<pc, loc, lpst, snap, crem, fneed, rseq>>
\* fossil_lp_collect: index arithmetic of src/gvt/fossil.c and model_allocator_fossil_lp_collect
RECURSIVE LastBelow(_, _, _)
LastBelow(p, i, g) == IF i = 0 THEN 0 ELSE IF hist[p][i].k = "e" /\ hist[p][i].t < g THEN i ELSE LastBelow(p, i - 1, g)
FossilN(p, g) == LET n0 == LastBelow(p, Len(hist[p]), g)
                     ok == {k \in 1..Len(ckpt[p]) : ckpt[p][k].ref <= n0} IN
                 IF n0 = 0 \/ ok = {} THEN 0 ELSE ckpt[p][TW!Max(ok)].ref
SeqMatches(p, es, from) ==
  \A j \in 1..Len(es) : from + j <= Len(SeqHist[p]) /\ LET x == SeqHist[p][from + j] IN es[j].t = x.t /\ es[j].ty = x.ty /\ es[j].pid = x.pid /\ es[j].g.s = x.s
FossilStep(r) ==
  /\ pc[r] = "fossil"
  /\ LET p == loc[r].lp
         g == gvtSeen[r]
         n == FossilN(p, g)
         dropped == SubSeq(hist[p], 1, n)
         tofree == SelectSeq(dropped, LAMBDA e : e.k # "s") IN
     /\ IF n = 0
        THEN UNCHANGED <<twvars, snap, err>>
        ELSE /\ Do(TW!FossilChecks(r, p, g, n) \o << <<SeqMatches(p, TW!CommittedOf(p, n), cpos[p]), "C03", "committed history is not a prefix of the sequential history">> >>,
                   TW!Fossil(r, p, g, n))
             /\ snap' = [snap EXCEPT ![p] = SubSeq(@, Len(@) - Len(SelectSeq(ckpt[p], LAMBDA c : c.ref >= n)) + 1, Len(@))]
     /\ fneed' = [fneed EXCEPT ![p] = FALSE]
     /\ Goto(r, IF n = 0 THEN "flag" ELSE "ffree", [loc[r] EXCEPT !.fl = [i \in 1..Len(tofree) |-> tofree[i].m]])
  /\ UNCHANGED <<lpst, crem, rseq>>
FossilFree(r) ==
  /\ pc[r] = "ffree"
  /\ IF loc[r].fl = <<>>
     THEN Goto(r, "flag", loc[r]) /\ UNCHANGED <<twvars, err>>
     ELSE Do(TW!FreeChecks(r, Head(loc[r].fl)), TW!Free(r, Head(loc[r].fl))) /\ Goto(r, "ffree", [loc[r] EXCEPT !.fl = Tail(@)])
  /\ UNCHANGED <<lpst, snap, crem, fneed, rseq>>

(* ---------------- scheduling of the steps ---------------- *)
\* steps that touch memory shared with other threads: the CAS push, the exchange, the fetch_adds
SharedPc == {"push", "rbins", "flag", "rxpush"}
IsShared(r) == pc[r] \in SharedPc \/ (pc[r] = "idle" /\ (TW!InboxOf(r) # {} \/ Receivable(r) # {})) \/ (pc[r] = "rbloop" /\ loc[r].i <= Len(hist[loc[r].lp]))
                \/ pc[r] = "init"
StepOf(r) ==
  \/ InitStart(r) \/ InitLp(r) \/ InitDone(r) \/ SchedAlloc(r) \/ SchedPush(r) \/ SchedSent(r) \/ SchedEnd(r) \/ DrainStep(r) \/ PopStep(r) \/ PopNone(r)
  \/ FlagStep(r) \/ FreeStep(r) \/ RbBeginStep(r) \/ RbEntry(r) \/ RbInsert(r) \/ RbRestore(r) \/ RbEndStep(r) \/ ExecStep(r) \/ ExecDone(r)
  \/ CkptStep(r) \/ FossilStep(r) \/ FossilFree(r) \/ RecvStep(r) \/ RxAlloc(r) \/ RxPush(r) \/ RAntiStep(r) \/ EMatchStep(r) \/ Free2Step(r) \/ RbAnti(r) \/ AtGvtStep(r)
Idle(r) == pc[r] = "idle" /\ TW!InboxOf(r) = {} /\ TW!HeapOf(r) = {} /\ Receivable(r) = {} /\ (MaxGvt > 0 => AtGvtOf(r) = {})
Private == {r \in ThreadsC : ~IsShared(r) /\ ~Idle(r) /\ ENABLED StepOf(r)}
\* the kind of shared access a step of r performs ("" for a private step): the vocabulary of the observation points of the code
KindOf(r) ==
  CASE pc[r] = "push" -> IF Remote(r, Head(loc[r].sends).lp) THEN "NetSend" ELSE "Push"
    [] pc[r] \in {"rbins", "rxpush"} -> "Push"
    [] pc[r] = "flag" -> "Flag"
    [] pc[r] = "idle" /\ pc'[r] = "pop" -> "Drain"
    [] pc[r] = "idle" /\ pc'[r] = "rxalloc" -> "NetRecv"
    [] pc[r] = "rbloop" /\ loc[r].i <= Len(hist[loc[r].lp]) ->
         (LET e == hist[loc[r].lp][loc[r].i] IN IF e.k = "r" THEN "NetSend" ELSE IF e.k = "s" THEN "AntiLocal" ELSE "Undo")
    [] OTHER -> ""
Record(r) == sched' = IF RecordSched /\ KindOf(r) # "" THEN Append(sched, <<r, KindOf(r)>>) ELSE sched
Next ==
  /\ err = <<>>
  /\ IF Private # {} THEN StepOf(TW!Min(Private)) /\ Record(TW!Min(Private))
                     ELSE \E r \in ThreadsC : (StepOf(r) \/ GvtTick(r)) /\ Record(r)
Spec == Init /\ [][Next]_vars

(* ---------------- properties ---------------- *)
NoCheckFails == err = <<>>
\* the bounded pools of buffer and network identities never run dry (otherwise behaviours would be cut silently)
PoolSufficient == PoolOk /\ NetOk
Quiescent == (\A r \in ThreadsC : Idle(r)) /\ DOMAIN net = {}

ParHist(p) == LET es == SelectSeq(hist[p], LAMBDA e : e.k = "e" /\ e.ty # 65534) IN
              [i \in 1..Len(es) |-> [t |-> es[i].t, ty |-> es[i].ty, pid |-> es[i].pid, s |-> es[i].g.s]]
\* C01: at quiescence every LP has processed exactly the sequential history, with the same states
\* (events released by fossil collection were compared with the sequential history when they were released)
C01_FinalEqualsSequential == Quiescent => \A p \in LPs : cpos[p] <= Len(SeqHist[p]) /\ ParHist(p) = SubSeq(SeqHist[p], cpos[p] + 1, Len(SeqHist[p]))
\* C06: at quiescence every live buffer is a valid processed event (nothing cancelled is left, nothing is lost)
\* (the sender's copy of a remote send stays as a mark of its history, or waits for the GVT once cancelled; no anti-message stays parked)
IsRemoteMark(m) == msg[m].rem /\ msg[m].inq = "none" /\ \E p \in LPs : TW!IdxOf(p, "r", m) # {}
C06_NothingLeft == Quiescent => /\ \A m \in DOMAIN msg : \/ TW!InHistE(m) /\ ~TW!HasAnti(msg[m].flags)
                                                         \/ IsRemoteMark(m)
                                                         \/ msg[m].rem /\ msg[m].inq = "atgvt" /\ \A p \in LPs : TW!IdxOf(p, "r", m) = {}
                                /\ \A p \in LPs : early[p] = {}
\* C02: at quiescence the remote sends that were not cancelled and the processed events that arrived from the network are in bijection
\* (without fossil collection: committed entries are released on both sides independently; they are compared with the sequential
\* history when released)
C02_RemoteExactlyOnce ==
  (Quiescent /\ MaxGvt = 0) => /\ \A m \in DOMAIN msg : IsRemoteMark(m) => Cardinality({x \in DOMAIN msg : TW!FromNet(x) /\ TW!SameRemote(m, x)}) = 1
               /\ \A x \in DOMAIN msg : TW!FromNet(x) => Cardinality({m \in DOMAIN msg : IsRemoteMark(m) /\ TW!SameRemote(m, x)}) = 1
\* behaviours for replay: at quiescence the order of the shared accesses is printed (always TRUE)
EmitSched == (RecordSched /\ Quiescent) => PrintT(<<"SCHED", ToJson(sched)>>)
\* reachability probes (expected to be VIOLATED: used to show that a scenario is reachable in a configuration)
Probe_NoRemoteAntiRollback == \A r \in ThreadsC : ~(pc[r] = "rbbegin" /\ loc[r].after = "free2")
Probe_NoRemoteAntiAfterProcessing == \A r \in ThreadsC : pc[r] = "ranti" => ~\E i \in 1..Len(hist[loc[r].lp]) : hist[loc[r].lp][i].k = "e" /\ msg[hist[loc[r].lp][i].m].t = msg[loc[r].m].t
Probe_X == ~((\E i \in 1..Len(hist[1]) : hist[1][i].k = "e" /\ hist[1][i].t = 4) /\ \E nm \in DOMAIN net : net[nm].kind = "anti")
Probe_NoEarlyAnti == \A p \in LPs : early[p] = {}
Probe_NoEarlyAntiWhileEventInFlight == \A p \in LPs : \A am \in early[p] : ~\E q \in ThreadsC : rx[q].kind = "ev" /\ rx[q].sq = msg[am].sq
=============================================================================
