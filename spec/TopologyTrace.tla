--------------------------- MODULE TopologyTrace ---------------------------
(***************************************************************************)
(* C19 bound to the code: harness/topodrv.c queries the real GetReceiver,  *)
(* IsNeighbor, CountDirections for every geometry, size, source region and *)
(* direction (one trace line per source region), including random         *)
(* directions drawn from several generator states and the purity test      *)
(* (same generator state => same answer, whatever other LPs did between).  *)
(***************************************************************************)
EXTENDS Topology, TLC, Json, IOUtils

TraceLog == ndJsonDeserialize(IOEnv.TRACE)
VARIABLES l, bad
Line == TraceLog[l]
Checks(x) ==
  LET g == x.g  w == x.w  h == x.h  n == x.n  f == x.from
      nb == Neighbors(g, w, h, n, f) IN
  << <<\A d \in 0..7 : x.recv[d + 1] = (IF g \in 1..5 THEN Recv(g, w, h, n, f, d) ELSE Invalid),
       "GetReceiver for a fixed direction differs from the geometry">>,
     <<\A d \in 0..7 : x.recv[d + 1] # Invalid => (x.recv[d + 1] >= 0 /\ x.recv[d + 1] < n /\ x.isn[d + 1] = 1),
       "GetReceiver returned a region outside the topology or one that IsNeighbor does not confirm">>,
     <<x.cnt = Count(g, w, h, n, f), "CountDirections differs from the number of valid directions / other regions">>,
     <<\A i \in 1..Len(x.rnd) : IF nb = {} THEN x.rnd[i] = Invalid ELSE x.rnd[i] \in nb,
       "DIRECTION_RANDOM did not return a neighbour although one exists (or returned a region that is not a neighbour)">>,
     <<\A i \in 1..Len(x.rnd) : x.rnd[i] # Invalid => x.rndisn[i] = 1, "IsNeighbor does not confirm the region returned for DIRECTION_RANDOM">>,
     <<\A t \in 0..(n - 1) : (x.isnall[t + 1] = 1) = (IF g = 7 THEN TRUE ELSE t \in nb),
       "IsNeighbor differs from the neighbour relation">>,
     <<x.pure[1] = x.pure[2], "the random choice depends on more than the calling LP's generator state (not repeated after a rollback / affected by other LPs)">> >>

\* the rows are independent: every failing row is reported (up to a bound), none stops the run
MaxBad == 400
AddBad(f) == IF Len(bad) >= MaxBad THEN bad ELSE bad \o [i \in 1..Len(f) |-> [p |-> "C19", w |-> f[i][2], at |-> l]]
TInit == l = 1 /\ bad = <<>> /\ TLCSet(1, 0) /\ TLCSet(2, <<>>)
TRow ==
  /\ l <= Len(TraceLog) /\ Line.e = "Topo"
  /\ l' = l + 1
  /\ bad' = AddBad(SelectSeq(Checks(Line), LAMBDA c : ~c[1]))
TCrash ==
  /\ l <= Len(TraceLog) /\ Line.e = "Crash"
  /\ l' = l + 1
  /\ bad' = bad \o <<[p |-> "C19", w |-> "topology query crashed", at |-> l]>>
TGraph ==
  /\ l <= Len(TraceLog) /\ Line.e = "Graph"
  /\ l' = l + 1
  /\ LET x == Line
         links == {x.links[i] : i \in 1..Len(x.links)}
         outs == {k[2] : k \in {q \in links : q[1] = x.from}}
         f == SelectSeq(<< <<x.cnt = Cardinality(outs), "graph: CountDirections differs from the number of links added from the region">>,
                           <<\A t \in 0..(x.n - 1) : (x.isnall[t + 1] = 1) = (t \in outs), "graph: IsNeighbor differs from the links added">>,
                           <<\A i \in 1..Len(x.rnd) : IF outs = {} THEN x.rnd[i] = Invalid ELSE x.rnd[i] \in outs, "graph: DIRECTION_RANDOM returned a region that is not linked">>,
                           <<x.pure[1] = x.pure[2], "graph: the random choice is not a function of the generator state only">> >>, LAMBDA c : ~c[1]) IN
       bad' = AddBad(f)
\* NT real threads, one LP each, query the same topology at the same time: every thread must see the sequence it sees when it runs alone
TConc ==
  /\ l <= Len(TraceLog) /\ Line.e = "Conc"
  /\ l' = l + 1
  /\ bad' = AddBad(SelectSeq(<< <<Line.mismatch = 0, "the random neighbour an LP gets depends on what other threads query at the same time (state shared between calls)">> >>,
                             LAMBDA c : ~c[1]))
TSpec == TInit /\ [][TRow \/ TGraph \/ TCrash \/ TConc]_<<l, bad>>
Progress == TLCSet(1, IF l > TLCGet(1) THEN l ELSE TLCGet(1)) /\ (bad # <<>> => TLCSet(2, bad))
Post == PrintT(<<"RESULT", TLCGet(1) - 1, Len(TraceLog), TLCGet(2)>>)
=============================================================================
