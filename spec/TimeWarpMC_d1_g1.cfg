SPECIFICATION Spec
CONSTANTS ThreadsC = {0, 8}  NLpC = 2  OwnerOf <- D1_Owner  InitEv <- D1_Init  Trans <- D1_Trans  MaxMsg = 16  CkptEvery = 1  MaxGvt = 1  RecordSched = FALSE
INVARIANT NoCheckFails
INVARIANT PoolSufficient
INVARIANT C01_FinalEqualsSequential
INVARIANT C06_NothingLeft
INVARIANT C02_RemoteExactlyOnce
CHECK_DEADLOCK FALSE
