SPECIFICATION FairSpec
CONSTANT N = 4
INVARIANT AtMostOneLeader
INVARIANT Lockstep
INVARIANT CountersInRange
PROPERTY NoEarlyPass
PROPERTY ExactlyOneLeader
PROPERTY Reusable
