---------------------------- MODULE Termination ----------------------------
(***************************************************************************)
(* Termination accounting of one worker thread (src/gvt/termination.c)     *)
(* against an abstract environment that processes events, rolls LPs back   *)
(* and reports GVT values (property C07).                                  *)
(*                                                                         *)
(* Environment (what the rest of the runtime guarantees):                  *)
(*   - events of an LP are processed in non-decreasing timestamp order     *)
(*     unless rolled back;                                                 *)
(*   - a rollback caused by a message with timestamp t removes only events *)
(*     with timestamp >= t and keeps only events with timestamp <= t;      *)
(*   - after GVT = g was reported nothing is processed or rolled back      *)
(*     below g, and GVT values increase.                                   *)
(* The accounting variables termT/lpsToEnd/maxT are a transcription of     *)
(* termination.c, with the constant None for "predicate not yet true".     *)
(***************************************************************************)
EXTENDS Naturals, Integers, Sequences, FiniteSets

CONSTANTS NLP,       \* LPs hosted by the thread: 0..NLP-1
          MaxT,      \* timestamps 0..MaxT
          TermTime,  \* configured termination time (Inf: none)
          Inf,       \* SIMTIME_MAX
          NoneNeg    \* the sentinel of termination.c for "not terminated" is -NoneNeg
                     \* (0 in the original code: a legal timestamp, defect D1; 1 after the fix)

None == 0 - NoneNeg

LPs == 0..(NLP - 1)

VARIABLES
  ev,        \* ev[p]: valid processed events of p, each [t, pred]
  inited,    \* number of LPs initialised (in id order)
  initPred,  \* initPred[p]: predicate value at initialisation
  gvt,       \* last GVT reported (0: none yet)
  termT, lpsToEnd, maxT,   \* termination.c
  voted,     \* the thread has voted
  voteGvt    \* GVT at which it voted

vars == <<ev, inited, initPred, gvt, termT, lpsToEnd, maxT, voted, voteGvt>>

Init ==
  /\ ev = [p \in LPs |-> <<>>]
  /\ inited = 0
  /\ initPred = [p \in LPs |-> FALSE]
  /\ gvt = 0
  /\ termT = [p \in LPs |-> None]
  /\ lpsToEnd = 0 /\ maxT = 0
  /\ voted = FALSE /\ voteGvt = 0

LastT(p) == IF ev[p] = <<>> THEN 0 ELSE ev[p][Len(ev[p])].t
Max2(a, b) == IF a > b THEN a ELSE b

\* termination_lp_init
LpInit(p, pred) ==
  /\ inited = p /\ p < NLP
  /\ inited' = p + 1
  /\ initPred' = [initPred EXCEPT ![p] = pred]
  /\ lpsToEnd' = lpsToEnd + (IF pred THEN 0 ELSE 1)
  /\ termT' = [termT EXCEPT ![p] = IF pred THEN Inf ELSE None]
  /\ UNCHANGED <<ev, gvt, maxT, voted, voteGvt>>

\* common_msg_process + termination_on_msg_process(lp, t)
Process(p, t, pred) ==
  /\ inited = NLP
  /\ t >= gvt /\ t >= LastT(p)
  /\ ev' = [ev EXCEPT ![p] = Append(@, [t |-> t, pred |-> pred])]
  /\ IF termT[p] # None
     THEN UNCHANGED <<termT, lpsToEnd, maxT>>
     ELSE /\ maxT' = IF pred THEN Max2(t, maxT) ELSE maxT
          /\ termT' = [termT EXCEPT ![p] = IF pred THEN t ELSE None]
          /\ lpsToEnd' = lpsToEnd - (IF pred THEN 1 ELSE 0)
  /\ UNCHANGED <<inited, initPred, gvt, voted, voteGvt>>

\* do_rollback to k kept events, caused by a message with timestamp t, then termination_on_lp_rollback(lp, t)
Rollback(p, k, t) ==
  /\ inited = NLP
  /\ t >= gvt /\ k < Len(ev[p])
  /\ \A i \in 1..k : ev[p][i].t <= t
  /\ \A i \in (k + 1)..Len(ev[p]) : ev[p][i].t >= t
  /\ ev' = [ev EXCEPT ![p] = SubSeq(@, 1, k)]
  /\ LET keep == termT[p] < t \/ termT[p] = Inf IN
       /\ termT' = [termT EXCEPT ![p] = IF keep THEN @ ELSE None]
       /\ lpsToEnd' = lpsToEnd + (IF keep THEN 0 ELSE 1)
  /\ UNCHANGED <<inited, initPred, gvt, maxT, voted, voteGvt>>

\* termination_on_gvt(g)
Gvt(g) ==
  /\ inited = NLP
  /\ g > gvt
  /\ gvt' = g
  /\ IF (lpsToEnd # 0 \/ maxT >= g) /\ g < TermTime
     THEN UNCHANGED <<maxT, voted, voteGvt>>
     ELSE /\ maxT' = Inf
          /\ voted' = TRUE
          /\ voteGvt' = IF voted THEN voteGvt ELSE g
  /\ UNCHANGED <<ev, inited, initPred, termT, lpsToEnd>>

Next ==
  \/ \E p \in LPs, b \in BOOLEAN : LpInit(p, b)
  \/ \E p \in LPs, t \in 0..MaxT, b \in BOOLEAN : Process(p, t, b)
  \/ \E p \in LPs, t \in 0..MaxT : \E k \in 0..Len(ev[p]) : Rollback(p, k, t)
  \/ \E g \in (1..(MaxT + 1)) \cup {Inf} : Gvt(g)
Spec == Init /\ [][Next]_vars

(***************************************************************************)
(* C07: a vote implies that every LP's predicate held on a committed state *)
(* (at initialisation, or on an event below the GVT of the vote, which by  *)
(* the environment assumptions can never be rolled back), or that the GVT  *)
(* reached the termination time.                                           *)
(***************************************************************************)
HeldCommitted(p, g) == initPred[p] \/ \E i \in 1..Len(ev[p]) : ev[p][i].pred /\ ev[p][i].t < g
VoteImpliesCommitted ==
  voted => (voteGvt >= TermTime \/ \A p \in LPs : HeldCommitted(p, voteGvt))

\* the counter never underflows
CounterSane == lpsToEnd >= 0 /\ lpsToEnd <= NLP

\* bound for model checking
Bounded == \A p \in LPs : Len(ev[p]) <= 3
=============================================================================
