--------------------------- MODULE TimeWarpMC_m4 ---------------------------
(* micro-model 4 (fossil collection that finds nothing new, then a rollback to the committed frontier): two LPs on two threads.
   LP0 is quiet: two events of its own (t=2, t=5) that send nothing - with a checkpoint after every event its history is
   [e2, ckpt, e5, ckpt].  LP1's event (t=3) sends a third quiet event (t=4) to LP0.  With GVT values 3 and then 4 handed to thread 0:
   the first collection commits e2 and re-bases the history of LP0 at the checkpoint after it; at the second one NOTHING of the kept
   history [e5] is below the GVT (fossil_lp_collect walks down to entry 0 and returns); the event at t=4 is then a straggler for e5 and
   the rollback needs exactly the checkpoint kept at the frontier.  (Seeded change C13c treated entry 0 as committed in that walk.) *)
EXTENDS TimeWarpMC
M4_Owner == (0 :> 0) @@ (1 :> 1)
M4_Init == << [src |-> 0, lp |-> 0, t |-> 2, ty |-> 1, pid |-> 0], [src |-> 0, lp |-> 0, t |-> 5, ty |-> 1, pid |-> 0],
              [src |-> 1, lp |-> 1, t |-> 3, ty |-> 2, pid |-> 0] >>
Snd(off, d, ty) == [off |-> off, delay |-> d, ty |-> ty, pid |-> 0]
\* type 1: quiet (counts in the state), type 2: send one quiet event to the other LP
M4_Trans == << << [ns |-> 1, sends |-> <<>>], [ns |-> 0, sends |-> <<Snd(1, 1, 1)>>] >>,
               << [ns |-> 0, sends |-> <<>>], [ns |-> 1, sends |-> <<>>] >> >>
\* reachability probes (expected to be violated)
Probe_NoEmptyFossilAfterCollection ==
  \A r \in ThreadsC : ~(pc[r] = "fossil" /\ cpos[loc[r].lp] > 0 /\ hist[loc[r].lp] # <<>> /\ FossilN(loc[r].lp, gvtSeen[r]) = 0)
Probe_NoRollbackToFrontierAfterCollection ==
  \A r \in ThreadsC : ~(pc[r] = "rbbegin" /\ loc[r].past = 0 /\ cpos[loc[r].lp] > 0)
=============================================================================
