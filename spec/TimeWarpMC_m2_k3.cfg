SPECIFICATION Spec
CONSTANTS ThreadsC = {0, 1}  NLpC = 3  OwnerOf <- M2_Owner  InitEv <- M2_Init  Trans <- M2_Trans  MaxMsg = 16  CkptEvery = 3  MaxGvt = 0  RecordSched = FALSE
INVARIANT NoCheckFails
INVARIANT PoolSufficient
INVARIANT C01_FinalEqualsSequential
INVARIANT C06_NothingLeft
CHECK_DEADLOCK FALSE
