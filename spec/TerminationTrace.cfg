SPECIFICATION TSpec
CONSTANTS NLP = 3  MaxT = 6  TermTime = 1000000  Inf = 1073741824  NoneNeg = 1
CONSTRAINT Progress
POSTCONDITION Post
CHECK_DEADLOCK FALSE
