----------------------------- MODULE StatsTrace -----------------------------
(***************************************************************************)
(* C20: the statistics file is consistent with what happened.  The trace   *)
(* of a parallel run carries the observation points of the events the      *)
(* statistics count (forward executions incl. LP_INIT, rollbacks, undone   *)
(* events, silent re-executions, checkpoints, anti-messages) and the GVT   *)
(* values handed to every thread; after the run the harness parses         *)
(* <stats>.bin with an independent reader and appends what it found.       *)
(* The specification accumulates the counters per thread, closes a record  *)
(* at every GVT value (stats_on_gvt) and requires the file to contain      *)
(* exactly these records.                                                  *)
(***************************************************************************)
EXTENDS Naturals, Integers, Sequences, FiniteSets, TLC, Json, IOUtils

TraceLog == ndJsonDeserialize(IOEnv.TRACE)
Cfg == TraceLog[1]
NThreadsC == IF Cfg.threads > Cfg.nlps THEN Cfg.nlps ELSE Cfg.threads
Threads == 0..(NThreadsC - 1)
Zero == [proc |-> 0, rb |-> 0, und |-> 0, ck |-> 0, sil |-> 0, anti |-> 0]

VARIABLES l, bad, cur, recs, fileN, fileT, hdr
vars == <<l, bad, cur, recs, fileN, fileT, hdr>>
Line == TraceLog[l]
R == Line.thr
IsEvent(e) == l <= Len(TraceLog) /\ Line.e = e /\ l' = l + 1
Bump(f) == cur' = [cur EXCEPT ![R] = [@ EXCEPT ![f] = @ + 1]]
Add(cs) == LET f == SelectSeq(cs, LAMBDA c : ~c[1]) IN bad \o [i \in 1..Len(f) |-> [p |-> "C20", w |-> f[i][2], at |-> l]]

TInit == l = 1 /\ bad = <<>> /\ cur = [r \in Threads |-> Zero] /\ recs = [r \in Threads |-> <<>>]
         /\ fileN = <<>> /\ fileT = [r \in Threads |-> <<>>] /\ hdr = <<>> /\ TLCSet(1, 0) /\ TLCSet(2, <<>>)

Counted == {"Exec", "LpInit", "RbBegin", "Undo", "AntiLocal", "AntiRemote", "Ckpt", "RbEnd", "Gvt", "StatsHdr", "StatsNode", "StatsThrHdr",
            "StatsThr", "StatsEnd", "StatsMissing", "End"}
TSkip == l <= Len(TraceLog) /\ Line.e \notin Counted /\ l' = l + 1 /\ UNCHANGED <<bad, cur, recs, fileN, fileT, hdr>>
TProc == (IsEvent("Exec") \/ IsEvent("LpInit")) /\ Bump("proc") /\ UNCHANGED <<bad, recs, fileN, fileT, hdr>>
TRb == IsEvent("RbBegin") /\ Bump("rb") /\ UNCHANGED <<bad, recs, fileN, fileT, hdr>>
TUndo == IsEvent("Undo") /\ Bump("und") /\ UNCHANGED <<bad, recs, fileN, fileT, hdr>>
TAnti == (IsEvent("AntiLocal") \/ IsEvent("AntiRemote")) /\ Bump("anti") /\ UNCHANGED <<bad, recs, fileN, fileT, hdr>>
TCkpt == IsEvent("Ckpt") /\ Bump("ck") /\ UNCHANGED <<bad, recs, fileN, fileT, hdr>>
TRbEnd == IsEvent("RbEnd") /\ cur' = [cur EXCEPT ![R].sil = @ + Line.m] /\ UNCHANGED <<bad, recs, fileN, fileT, hdr>>
\* stats_on_gvt: the record of the thread is closed and the counters start again
TGvt ==
  /\ IsEvent("Gvt")
  /\ recs' = [recs EXCEPT ![R] = Append(@, [gvt |-> Line.val, c |-> cur[R]])]
  /\ cur' = [cur EXCEPT ![R] = Zero]
  /\ UNCHANGED <<bad, fileN, fileT, hdr>>

THdr ==
  /\ IsEvent("StatsHdr") /\ hdr' = <<Line>>
  /\ bad' = Add(<< <<Line.ok = 1 /\ Line.endian = 61455 /\ Line.names = 1 /\ Line.rem = 0, "statistics file does not parse according to its layout (header / names / node block)">>,
                  <<Line.nodes = 1 /\ Line.threads = NThreadsC, "statistics file reports a wrong number of nodes or threads">> >>)
  /\ UNCHANGED <<cur, recs, fileN, fileT>>
TNode == IsEvent("StatsNode") /\ fileN' = Append(fileN, Line.gvt) /\ UNCHANGED <<bad, cur, recs, fileT, hdr>>
TThrHdr ==
  /\ IsEvent("StatsThrHdr")
  /\ bad' = Add(<< <<Line.rem = 0, "a thread block of the statistics file is not a whole number of records">> >>)
  /\ UNCHANGED <<cur, recs, fileN, fileT, hdr>>
TThr ==
  /\ IsEvent("StatsThr")
  /\ fileT' = [fileT EXCEPT ![R] = Append(@, [proc |-> Line.proc, rb |-> Line.rb, und |-> Line.und, ck |-> Line.ck, sil |-> Line.sil, anti |-> Line.anti])]
  /\ UNCHANGED <<bad, cur, recs, fileN, hdr>>
Sum(s, f) == LET F[i \in 0..Len(s)] == IF i = 0 THEN 0 ELSE F[i - 1] + s[i][f] IN F[Len(s)]
TEndStats ==
  /\ IsEvent("StatsEnd")
  /\ bad' = Add(<< <<Line.ok = 1 /\ Line.trailing = 0, "statistics file is truncated or has trailing bytes">>,
                  <<\A r \in Threads : Len(fileT[r]) = Len(fileN), "the node and its threads hold different numbers of per-GVT records">>,
                  <<\A i \in 1..(Len(fileN) - 1) : fileN[i] <= fileN[i + 1], "GVT values of the statistics file decrease">>,
                  <<\A r \in Threads : \A k \in 1..Len(fileT[r]) : k <= Len(recs[r]) => fileT[r][k] = recs[r][k].c,
                    "a per-thread record differs from what happened on that thread since its previous record">>,
                  <<\A r \in Threads : Len(fileT[r]) = Len(recs[r]), "a thread wrote a different number of records than GVT values it was handed">>,
                  <<\A k \in 1..Len(fileN) : k <= Len(recs[0]) => fileN[k] = recs[0][k].gvt, "a node record lists a different GVT than the one handed to thread 0">>,
                  <<\A r \in Threads : \A k \in 1..Len(fileT[r]) : Sum(SubSeq(fileT[r], 1, k), "und") <= Sum(SubSeq(fileT[r], 1, k), "proc"),
                    "cumulative undone events exceed forward executions">> >>)
  /\ UNCHANGED <<cur, recs, fileN, fileT, hdr>>
TMissing == IsEvent("StatsMissing") /\ bad' = Add(<< <<FALSE, "no statistics file was produced">> >>) /\ UNCHANGED <<cur, recs, fileN, fileT, hdr>>
TEnd == IsEvent("End") /\ UNCHANGED <<bad, cur, recs, fileN, fileT, hdr>>

TNext == TSkip \/ TProc \/ TRb \/ TUndo \/ TAnti \/ TCkpt \/ TRbEnd \/ TGvt \/ THdr \/ TNode \/ TThrHdr \/ TThr \/ TEndStats \/ TMissing \/ TEnd
TSpec == TInit /\ [][TNext]_vars
Progress == TLCSet(1, IF l > TLCGet(1) THEN l ELSE TLCGet(1)) /\ (bad # <<>> => TLCSet(2, bad))
Post == PrintT(<<"RESULT", TLCGet(1) - 1, Len(TraceLog), TLCGet(2)>>)
=============================================================================
