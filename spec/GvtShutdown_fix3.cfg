SPECIFICATION SFairSpec
CONSTANTS N = 3 MaxT = 2 MaxMsgs = 2 MaxRounds = 5 Inf = 99 RetestBeforeInitiate = TRUE
CONSTANT VoteAt <- VoteAtLate
INVARIANT SafeDuringTeardown
PROPERTY AllReturn
CHECK_DEADLOCK FALSE
