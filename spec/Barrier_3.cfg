SPECIFICATION FairSpec
CONSTANT N = 3
INVARIANT AtMostOneLeader
INVARIANT Lockstep
INVARIANT CountersInRange
PROPERTY NoEarlyPass
PROPERTY ExactlyOneLeader
PROPERTY Reusable
