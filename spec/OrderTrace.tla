----------------------------- MODULE OrderTrace -----------------------------
(***************************************************************************)
(* C16 bound to the code: harness/orderdrv.c dumps the truth table of the  *)
(* real msg_is_before and q_elem_is_before over a finite domain of events  *)
(* (one trace line per row), evaluating every pair with all the fields the *)
(* order must not depend on varied (address, next, dest, m_seq, non-ANTI   *)
(* flag bits): an entry is 0/1, or 2 when the answers differ.              *)
(*                                                                         *)
(* Verdict layer (the property itself, on the table of the code): no entry *)
(* is 2 (content only), and each table is irreflexive, asymmetric,         *)
(* transitive, with transitive incomparability.  The property does not     *)
(* prescribe WHICH strict weak order: equality with Order!Before (the      *)
(* order SeqSim uses; its laws are checked too) is a divergence counter.   *)
(***************************************************************************)
EXTENDS Order, TLC, Json, IOUtils, FiniteSets

TraceLog == ndJsonDeserialize(IOEnv.TRACE)
Dom == TraceLog[1].events
N == Len(Dom)
DomSet == {Dom[i] : i \in 1..N}

VARIABLES l, bad, tabM, tabQ, div, done
Line == TraceLog[l]
B2I(b) == IF b THEN 1 ELSE 0

TInit == l = 2 /\ bad = <<>> /\ tabM = <<>> /\ tabQ = <<>> /\ div = 0 /\ done = FALSE /\ TLCSet(1, 0) /\ TLCSet(2, <<>>) /\ TLCSet(3, 0)
TRow ==
  /\ l <= Len(TraceLog) /\ bad = <<>> /\ Line.e = "Row" /\ ~done
  /\ l' = l + 1 /\ UNCHANGED done
  /\ tabM' = Append(tabM, Line.mb) /\ tabQ' = Append(tabQ, Line.qb)
  /\ LET i == Line.i
         dep == {j \in 1..N : Line.mb[j] = 2 \/ Line.qb[j] = 2}
         wrongM == {j \in 1..N : Line.mb[j] # B2I(Before(Dom[i], Dom[j]))}
         wrongQ == {j \in 1..N : Line.qb[j] # B2I(Before(Dom[i], Dom[j]))} IN
     /\ div' = div + Cardinality(wrongM) + Cardinality(wrongQ)
     /\ bad' = IF dep = {} /\ Line.i = Len(tabM) + 1 /\ Len(Line.mb) = N /\ Len(Line.qb) = N THEN <<>>
               ELSE <<[p |-> "C16", w |-> "the order of two events depends on a field that is not content (address, destination, sequence number, processed/identity bits of the flag word)", at |-> l]>>

\* the laws, on a table of the code
Irrefl(T) == \A i \in 1..N : T[i][i] = 0
Asym(T) == \A i \in 1..N : \A j \in 1..N : ~(T[i][j] = 1 /\ T[j][i] = 1)
Trans(T) == \A i \in 1..N : \A j \in 1..N : T[i][j] = 1 => \A k \in 1..N : T[j][k] = 1 => T[i][k] = 1
Inc(T, i, j) == T[i][j] = 0 /\ T[j][i] = 0
IncTrans(T) == \A i \in 1..N : \A j \in 1..N : Inc(T, i, j) => \A k \in 1..N : Inc(T, j, k) => Inc(T, i, k)
LawChecks(T, name) ==
  << <<Irrefl(T), name \o " is not irreflexive">>, <<Asym(T), name \o " is not asymmetric">>, <<Trans(T), name \o " is not transitive">>,
     <<IncTrans(T), "incomparability under " \o name \o " is not transitive">> >>
TLaws ==
  /\ l = Len(TraceLog) + 1 /\ bad = <<>> /\ ~done /\ Len(tabM) = N
  /\ done' = TRUE /\ UNCHANGED <<l, tabM, tabQ, div>>
  /\ LET f == SelectSeq(LawChecks(tabM, "msg_is_before") \o LawChecks(tabQ, "q_elem_is_before"), LAMBDA c : ~c[1]) IN
       bad' = [i \in 1..Len(f) |-> [p |-> "C16", w |-> f[i][2], at |-> l - 1]]
TSpec == TInit /\ [][TRow \/ TLaws]_<<l, bad, tabM, tabQ, div, done>>

\* the reference order itself (Order!Before, used by SeqSim) satisfies the laws and is total on content
Laws == StrictWeakOrder(DomSet) /\ IncompIsEqualContent(DomSet)
\* the evaluation of the laws counts as one more line to consume (a run that never evaluates them is not accepted)
Pos == l + B2I(done)
Progress == TLCSet(1, IF Pos > TLCGet(1) THEN Pos ELSE TLCGet(1)) /\ (bad # <<>> => TLCSet(2, bad)) /\ TLCSet(3, div)
Post == PrintT(<<"RESULT", TLCGet(1) - 1, Len(TraceLog) + 1, TLCGet(2)>>) /\ PrintT(<<"LAWS", Laws, N>>) /\ PrintT(<<"DIVERGENCES", TLCGet(3)>>)
=============================================================================
