----------------------------- MODULE OrderTrace -----------------------------
(***************************************************************************)
(* C16: (a) the laws of a strict weak order for Order!Before over a finite *)
(* domain of events; (b) the truth table of the real msg_is_before and     *)
(* q_elem_is_before over the same domain (harness/orderdrv.c, every        *)
(* non-content field varied) must equal Before row by row.                 *)
(***************************************************************************)
EXTENDS Order, TLC, Json, IOUtils, FiniteSets

TraceLog == ndJsonDeserialize(IOEnv.TRACE)
Dom == TraceLog[1].events
N == Len(Dom)
DomSet == {Dom[i] : i \in 1..N}

VARIABLES l, bad
Line == TraceLog[l]
B2I(b) == IF b THEN 1 ELSE 0

TInit == l = 2 /\ bad = <<>> /\ TLCSet(1, 0) /\ TLCSet(2, <<>>)
TRow ==
  /\ l <= Len(TraceLog) /\ bad = <<>> /\ Line.e = "Row"
  /\ l' = l + 1
  /\ LET i == Line.i
         wrongM == {j \in 1..N : Line.mb[j] # B2I(Before(Dom[i], Dom[j]))}
         wrongQ == {j \in 1..N : Line.qb[j] # B2I(Before(Dom[i], Dom[j]))} IN
     bad' = IF wrongM = {} /\ wrongQ = {} THEN <<>>
            ELSE <<[p |-> "C16", w |-> "order of the implementation differs from the content-based order (or depends on a non-content field)", at |-> l]>>
TSpec == TInit /\ [][TRow]_<<l, bad>>

Laws == StrictWeakOrder(DomSet) /\ IncompIsEqualContent(DomSet)
Progress == TLCSet(1, IF l > TLCGet(1) THEN l ELSE TLCGet(1)) /\ (bad # <<>> => TLCSet(2, bad))
Post == PrintT(<<"RESULT", TLCGet(1) - 1, Len(TraceLog), TLCGet(2)>>) /\ PrintT(<<"LAWS", Laws, N>>)
=============================================================================
