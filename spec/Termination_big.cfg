SPECIFICATION Spec
CONSTANTS NLP = 2  MaxT = 3  TermTime = 1000000  Inf = 1000000  NoneNeg = 1
INVARIANT VoteImpliesCommitted
INVARIANT CounterSane
CONSTRAINT Bounded
CHECK_DEADLOCK FALSE
