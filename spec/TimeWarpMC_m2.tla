--------------------------- MODULE TimeWarpMC_m2 ---------------------------
(* micro-model 2: three LPs on two threads (LP0, LP1 on thread 0; LP2 on thread 1).  LP2 runs ahead (events at t=2 and t=4),
   each forwards to LP1; LP0's event at t=1 sends a straggler (t=1, smaller type: zero-delay send) to LP2: cascade of depth 2
   (LP2 rolls back, its anti-messages roll LP1 back), timestamp ties decided by the type *)
EXTENDS TimeWarpMC
M2_Owner == (0 :> 0) @@ (1 :> 0) @@ (2 :> 1)
M2_Init == << [src |-> 0, lp |-> 0, t |-> 1, ty |-> 2, pid |-> 0], [src |-> 2, lp |-> 2, t |-> 2, ty |-> 1, pid |-> 0],
              [src |-> 2, lp |-> 2, t |-> 4, ty |-> 1, pid |-> 0] >>
Snd(off, d, ty) == [off |-> off, delay |-> d, ty |-> ty, pid |-> 0]
\* types: 1 = work (forward to LP (me+2)%3 with delay 1 while in state 0), 2 = kick (zero-delay type-1 event to LP (me+2)%3)
M2_Trans == << << [ns |-> 1, sends |-> <<Snd(2, 1, 1)>>], [ns |-> 0, sends |-> <<Snd(2, 0, 1)>>] >>,
               << [ns |-> 1, sends |-> <<>>],            [ns |-> 1, sends |-> <<>>] >> >>
=============================================================================
