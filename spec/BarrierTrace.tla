---------------------------- MODULE BarrierTrace ----------------------------
(***************************************************************************)
(* Binds Barrier to the real sync_thread_barrier: harness/bardrv.c runs N  *)
(* real threads under the cooperative scheduler (switches between the      *)
(* fetch_add and every load of the spin loops), each calling the barrier K *)
(* times; the hooks log BarArrive (after the fetch_add) and BarLeave       *)
(* (return, with the leader flag).                                         *)
(* VERDICT (C17, on observables only): a thread returns from its k-th use  *)
(* only after every thread has entered its k-th use; exactly one leader    *)
(* per use.  CONFORMANCE: every line is also an enabled Barrier step with  *)
(* the same leader value (differences are counted only).                   *)
(***************************************************************************)
EXTENDS Naturals, Integers, Sequences, FiniteSets, TLC, Json, IOUtils

TraceLog == ndJsonDeserialize(IOEnv.TRACE)
NC == TraceLog[1].n
KC == TraceLog[1].k

VARIABLES phase, cs, pc, ldr, arrived, left, leaders, l, bad, div, arr, lv, nlead
B == INSTANCE Barrier WITH N <- NC
bvars == <<phase, cs, pc, ldr, arrived, left, leaders>>
tvars == <<bvars, l, bad, div, arr, lv, nlead>>
Line == TraceLog[l]
IsEvent(e) == l <= Len(TraceLog) /\ bad = <<>> /\ Line.e = e /\ l' = l + 1

TInit == B!Init /\ l = 2 /\ bad = <<>> /\ div = 0 /\ arr = [t \in B!Thr |-> 0] /\ lv = [t \in B!Thr |-> 0]
         /\ nlead = [k \in 1..KC |-> 0] /\ TLCSet(1, 0) /\ TLCSet(2, <<>>) /\ TLCSet(3, 0)

TArrive ==
  /\ IsEvent("BarArrive")
  /\ LET t == Line.thr IN
     /\ arr' = [arr EXCEPT ![t] = @ + 1]
     /\ IF ENABLED B!Arrive(t) THEN B!Arrive(t) /\ div' = div + (IF ldr'[t] = (Line.l = 1) THEN 0 ELSE 1)
        ELSE UNCHANGED bvars /\ div' = div + 1
     /\ UNCHANGED <<bad, lv, nlead>>

TLeave ==
  /\ IsEvent("BarLeave")
  /\ LET t == Line.thr
         k == lv[t] + 1 IN
     /\ lv' = [lv EXCEPT ![t] = k]
     /\ nlead' = [nlead EXCEPT ![k] = @ + Line.l]
     /\ bad' = (IF \A u \in B!Thr : arr[u] >= k THEN <<>>
                ELSE <<[p |-> "C17", w |-> "a thread returned from the barrier before all threads had entered that use", at |-> l]>>)
               \o (IF (\A u \in B!Thr \ {t} : lv[u] >= k) /\ nlead'[k] # 1
                   THEN <<[p |-> "C17", w |-> "a use of the barrier had " \o ToString(nlead'[k]) \o " leaders", at |-> l]>> ELSE <<>>)
     /\ IF ENABLED B!Leave(t) THEN B!Leave(t) /\ div' = div ELSE UNCHANGED bvars /\ div' = div + 1
     /\ UNCHANGED arr

THang ==
  /\ IsEvent("Hang")
  /\ bad' = <<[p |-> "C17", w |-> "threads do not get through the barrier (deadlock or livelock)", at |-> l]>>
  /\ UNCHANGED <<bvars, div, arr, lv, nlead>>
TEnd ==
  /\ IsEvent("End")
  /\ bad' = IF \A t \in B!Thr : lv[t] = KC THEN <<>> ELSE <<[p |-> "C17", w |-> "not every thread completed every use", at |-> l]>>
  /\ UNCHANGED <<bvars, div, arr, lv, nlead>>

\* truly concurrent threads (no scheduler): the driver monitors the observable contract of every use
TReal ==
  /\ IsEvent("RealSummary")
  /\ bad' = (IF Line.bad_leaders = 0 THEN <<>>
             ELSE <<[p |-> "C17", w |-> "uses of the barrier without exactly one leader: " \o ToString(Line.bad_leaders) \o " of " \o ToString(Line.uses)
                                         \o " (first: use " \o ToString(Line.first_bad) \o " with " \o ToString(Line.first_bad_leaders) \o " leaders)", at |-> l]>>)
            \o (IF Line.early = 0 THEN <<>> ELSE <<[p |-> "C17", w |-> "a thread returned from the barrier before all threads had entered that use (concurrent run)", at |-> l]>>)
  /\ UNCHANGED <<bvars, div, arr, lv, nlead>>
TNext == TArrive \/ TLeave \/ THang \/ TEnd \/ TReal
TSpec == TInit /\ [][TNext]_tvars
Progress == TLCSet(1, IF l > TLCGet(1) THEN l ELSE TLCGet(1)) /\ (bad # <<>> => TLCSet(2, bad)) /\ TLCSet(3, div)
Post == PrintT(<<"RESULT", TLCGet(1) - 1, Len(TraceLog), TLCGet(2)>>) /\ PrintT(<<"DIVERGENCES", TLCGet(3)>>)
=============================================================================
