------------------------------- MODULE CkptMC -------------------------------
(***************************************************************************)
(* Exhaustive exploration of the multi-arena allocator with checkpoints:   *)
(* alloc/free/write, checkpoints at arbitrary positions, restores to every *)
(* reachable history position (at, between, before checkpoints; arenas     *)
(* created after the checkpoint, at a lower or a higher address), fossil   *)
(* collections to every target, in a small world.  C05, C13, C11 (size).   *)
(***************************************************************************)
EXTENDS Ckpt

CONSTANTS MaxArenas, MaxLogs, MaxH, Tags
VARIABLES h      \* current history length (reference of the next checkpoint)
vars == <<cvars, h>>

Init == CInit /\ h = 1
\* the runtime takes the initial checkpoint in process_lp_init
Exps == BlockExp..TotalExp

DoMalloc(e, pos, tag) ==
  /\ h < MaxH
  /\ (MallocArena(e) = 0 => Len(arenas) < MaxArenas /\ pos \in 1..(Len(arenas) + 1))
  /\ (MallocArena(e) # 0 => pos = 0)
  /\ MallocE(e, pos, tag) /\ UNCHANGED logs /\ h' = h + 1
DoFree(k, off) == h < MaxH /\ FreeAt(k, off) /\ UNCHANGED logs /\ h' = h + 1
DoWrite(k, off, tag) == h < MaxH /\ arenas[k].cont[off] # tag /\ WriteAt(k, off, tag) /\ UNCHANGED logs /\ h' = h + 1
DoTake == Len(logs) < MaxLogs /\ (logs # <<>> => logs[Len(logs)].ref < h) /\ Take(h) /\ UNCHANGED h
DoRestore(t) == logs # <<>> /\ t >= logs[1].ref /\ t <= h /\ Restore(t) /\ h' = t
DoFossil(t) == logs # <<>> /\ t >= logs[1].ref /\ t <= h /\ Fossil(t) /\ h' = h - FossilRef(t)

Next ==
  \/ \E e \in Exps, pos \in 0..MaxArenas, tag \in Tags : DoMalloc(e, pos, tag)
  \/ \E k \in 1..Len(arenas) : \E off \in DOMAIN arenas[k].cont : DoFree(k, off) \/ \E tag \in Tags : DoWrite(k, off, tag)
  \/ DoTake
  \/ \E t \in 0..MaxH : DoRestore(t) \/ DoFossil(t)
Spec == Init /\ [][Next]_vars

\* C13: after a fossil collection the oldest checkpoint has reference 0 and every remaining
\* history position can still be restored
FossilRebased == [][\A t \in 0..MaxH : DoFossil(t) => logs'[1].ref = 0]_vars
Restorable == logs # <<>> => \A t \in logs[1].ref..h : NewestLE(Len(logs), t) # 0
\* C05: restore re-establishes exactly the snapshot for arenas that existed, empties the others
RestoreExact == [][\A t \in 0..MaxH : DoRestore(t) =>
                   LET i == NewestLE(Len(logs), t) IN
                     /\ logs[i].ref <= t /\ (\A j \in (i + 1)..Len(logs) : logs[j].ref > t)
                     /\ \A k \in 1..Len(arenas') :
                          IF InSnap(logs[i].snap, arenas'[k].id) THEN arenas'[k] = SnapOf(logs[i].snap, arenas'[k].id)
                          ELSE arenas'[k].lon = InitLongest /\ arenas'[k].cont = <<>>]_vars
=============================================================================
