SPECIFICATION TSpec
CONSTRAINT Progress
POSTCONDITION Post
CHECK_DEADLOCK FALSE
