SPECIFICATION Spec
CONSTANTS MaxL = 48 MaxN = 6 MaxT = 6
INVARIANT AllOk
