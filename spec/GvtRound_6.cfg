SPECIFICATION Spec
CONSTANTS N = 2 MaxT = 1 MaxMsgs = 6 MaxRounds = 1 Inf = 99
INVARIANT NeverBelowSeen
INVARIANT Agreed
INVARIANT CountersSane
PROPERTY NothingBelowGvt
PROPERTY Monotone
CHECK_DEADLOCK FALSE
