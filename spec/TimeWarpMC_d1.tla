--------------------------- MODULE TimeWarpMC_d1 ---------------------------
(* distributed micro-model 1: the two LPs of m1 on two ranks (threads 0 and 8).  LP1 starts ahead (t=3) and sends to LP0 over
   the network; LP0's first event (t=1) sends a straggler (t=2) to LP1: rollback at LP1, remote anti-message for its send,
   which meets the event before extraction (parked as early, annihilated at extraction) or after processing (rollback) *)
EXTENDS TimeWarpMC
D1_Owner == (0 :> 0) @@ (1 :> 8)
D1_Init == << [src |-> 0, lp |-> 0, t |-> 1, ty |-> 1, pid |-> 0], [src |-> 1, lp |-> 1, t |-> 3, ty |-> 1, pid |-> 0] >>
Snd(off, d, ty) == [off |-> off, delay |-> d, ty |-> ty, pid |-> 0]
D1_Trans == << << [ns |-> 1, sends |-> <<Snd(1, 1, 1)>>] >>,
               << [ns |-> 1, sends |-> <<>>] >> >>
=============================================================================
