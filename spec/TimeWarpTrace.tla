--------------------------- MODULE TimeWarpTrace ---------------------------
(***************************************************************************)
(* Trace validation of the real parallel engine against TimeWarp.          *)
(*   TRACE : ndjson written by harness/twh.c (one line per observation     *)
(*           point, in baton order = real order)                           *)
(*   REF   : the serial run of the same model (validated by SeqSimTrace):  *)
(*           Ref[p] is the sequential delivery history of LP p             *)
(* Every line is bound to one TimeWarp action (reconstruction layer); the  *)
(* property checks returned by the actions are evaluated at every step     *)
(* (verdict layer).  The first failed check is stored in `bad' and reported*)
(* by the POSTCONDITION; afterwards no step is enabled.                    *)
(***************************************************************************)
EXTENDS Naturals, Integers, Sequences, FiniteSets, TLC, Json, IOUtils

TraceLog == ndJsonDeserialize(IOEnv.TRACE)
RefLog == ndJsonDeserialize(IOEnv.REF)
Cfg == TraceLog[1]

NLpC == Cfg.nlps
\* the worker threads that appear in the trace (rank * 8 + thread in multi-rank runs)
ThreadsC == {TraceLog[i].thr : i \in 1..Len(TraceLog)} \ {-1}
MultiRank == Cfg.ranks > 1
InfC == 1073741824
TermTime == Cfg.term

VARIABLES msg, hist, base, ckpt, owner, rb, cpos, cheld, termT, gvtSeen, gvtCnt, gvtVals, finiLp, finiQ, votes,
          stopped, exited, hand, voted, maxDecl, mustVote, announced, net, rx, lastNm, early,
          div,     \* conformance divergences from the strict reference (count, first one): reported, never an alarm
          l,       \* next trace line
          bad,     \* failed checks of the step that failed first
          expect   \* thr -> message that the thread must re-insert next (0: none)

TW == INSTANCE TimeWarp WITH Threads <- ThreadsC, NLp <- NLpC, Inf <- InfC

twvars == <<msg, hist, base, ckpt, owner, rb, cpos, cheld, termT, gvtSeen, gvtCnt, gvtVals, finiLp, finiQ, votes,
            stopped, exited, hand, voted, maxDecl, mustVote, announced, net, rx, lastNm, early>>
tvars == <<msg, hist, base, ckpt, owner, rb, cpos, cheld, termT, gvtSeen, gvtCnt, gvtVals, finiLp, finiQ, votes,
           stopped, exited, hand, voted, maxDecl, mustVote, announced, net, rx, lastNm, early, l, bad, expect, div>>

(***************************************************************************)
(* Strict reference layer: what the code is expected to choose (index      *)
(* arithmetic of match_straggler_msg / match_anti_msg, newest checkpoint   *)
(* not after the rollback point, fossil_lp_collect, content order of the   *)
(* queue).  A difference is counted in `div' and reported in the evidence; *)
(* it never produces a verdict (a different but correct choice is legal).  *)
(***************************************************************************)
MD == INSTANCE Model
EvR(e) == [t |-> e.t, ty |-> e.ty, pid |-> e.pid]
MsgEv(m) == [t |-> msg[m].t, ty |-> msg[m].ty, pid |-> msg[m].pid]
RECURSIVE RefMS(_, _, _)
\* (an entry of the history that was cancelled in place by its sender sorts first at its timestamp, like in the queue: the scan stops there;
\* the anti-message that follows rolls back further and the straggler is then matched again)
RefMS(p, m, i) == IF i = 0 THEN 0 ELSE LET e == hist[p][i] IN
                  IF e.k # "e" \/ (MD!EvBefore(MsgEv(m), EvR(e)) /\ ~(msg[m].t = e.t /\ TW!Live(e.m) /\ TW!HasAnti(msg[e.m].flags))) THEN RefMS(p, m, i - 1) ELSE i
RefMatchStraggler(p, m) == RefMS(p, m, Len(hist[p]) - 1)
RECURSIVE RefMA(_, _)
RefMA(p, i) == IF i = 0 THEN 0 ELSE IF hist[p][i].k = "e" THEN i ELSE RefMA(p, i - 1)
RefMatchAnti(p, m) == IF TW!IdxOf(p, "e", m) = {} THEN -1 ELSE RefMA(p, (CHOOSE x \in TW!IdxOf(p, "e", m) : TRUE) - 1)
RefNewestRef(p, past) == LET ok == {k \in 1..Len(ckpt[p]) : ckpt[p][k].ref <= past} IN IF ok = {} THEN -1 ELSE ckpt[p][TW!Max(ok)].ref
RECURSIVE RefLastBelow(_, _, _)
RefLastBelow(p, i, g) == IF i = 0 THEN 0 ELSE IF hist[p][i].k = "e" /\ hist[p][i].t < g THEN i ELSE RefLastBelow(p, i - 1, g)
RefFossilN(p, g) == LET n0 == RefLastBelow(p, Len(hist[p]), g) IN IF n0 = 0 THEN 0 ELSE RefNewestRef(p, n0)
Diverge(cond, what) == IF cond THEN div ELSE [n |-> div.n + 1, first |-> IF div.n = 0 THEN [w |-> what, at |-> l] ELSE div.first]

\* sequential delivery history of every LP (LP_INIT excluded)
Ref == [p \in TW!LpSet |-> SelectSeq(RefLog, LAMBDA x : x.e = "Disp" /\ x.lp = p /\ x.ty # 65534)]

Line == TraceLog[l]
IsEvent(e) == l <= Len(TraceLog) /\ bad = <<>> /\ Line.e = e /\ l' = l + 1
R == Line.thr

Report(cs) == LET f == TW!Failed(cs) IN [i \in 1..Len(f) |-> [p |-> f[i][2], w |-> f[i][3], at |-> l]]
\* Step(cs, A): evaluate the checks; take the action only if all hold (a failed check ends the run)
Step(cs, A) ==
  IF TW!Failed(cs) = <<>>
  THEN A /\ bad' = <<>>
  ELSE bad' = Report(cs) /\ UNCHANGED twvars

Known(m) == <<m > 0, "DIV", "line refers to a buffer the harness never saw allocated">>
Ghost == [s |-> Line.s, cnt |-> Line.cnt, a |-> Line.dgA, b |-> Line.dgB, blk |-> Line.blk]

TInit == TW!Init /\ l = 1 /\ bad = <<>> /\ expect = [r \in ThreadsC |-> 0] /\ div = [n |-> 0, first |-> [w |-> "", at |-> 0]]
         /\ TLCSet(1, 0) /\ TLCSet(2, <<>>) /\ TLCSet(3, <<>>)

TConfig == IsEvent("Config") /\ UNCHANGED <<twvars, bad, expect, div>>
\* several executions of the same model concatenated in one trace file: start again from the initial state
TReset ==
  /\ IsEvent("Reset")
  /\ msg' = <<>> /\ hist' = [p \in TW!LpSet |-> <<>>] /\ base' = [p \in TW!LpSet |-> TW!NoGhost] /\ ckpt' = [p \in TW!LpSet |-> <<>>]
  /\ owner' = [p \in TW!LpSet |-> -1] /\ rb' = [r \in ThreadsC |-> TW!NoRb] /\ cpos' = [p \in TW!LpSet |-> 0]
  /\ cheld' = [p \in TW!LpSet |-> FALSE] /\ termT' = [p \in TW!LpSet |-> -1] /\ gvtSeen' = [r \in ThreadsC |-> 0]
  /\ gvtCnt' = [r \in ThreadsC |-> 0] /\ gvtVals' = <<>> /\ finiLp' = [p \in TW!LpSet |-> FALSE] /\ finiQ' = [r \in ThreadsC |-> FALSE]
  /\ votes' = 0 /\ stopped' = FALSE /\ exited' = [r \in ThreadsC |-> FALSE] /\ hand' = [r \in ThreadsC |-> 0]
  /\ voted' = [r \in ThreadsC |-> FALSE] /\ maxDecl' = [r \in ThreadsC |-> 0] /\ mustVote' = [r \in ThreadsC |-> FALSE]
  /\ announced' = FALSE /\ net' = <<>> /\ rx' = [r \in ThreadsC |-> TW!NoRx]
  /\ lastNm' = [r \in ThreadsC |-> [nm |-> 0, kind |-> "none", id |-> 0, sq |-> 0]] /\ early' = [p \in TW!LpSet |-> {}]
  /\ expect' = [r \in ThreadsC |-> 0] /\ bad' = <<>> /\ UNCHANGED div

Skippable == {"BarArrive", "BarLeave", "GvtStart", "GvtInitiate", "TPhase", "NPhase", "DrainStage", "ModelFini",
              "CollPost", "CollDone"}
TSkip == l <= Len(TraceLog) /\ bad = <<>> /\ Line.e \in Skippable /\ l' = l + 1 /\ UNCHANGED <<twvars, bad, expect, div>>

TAlloc == IsEvent("Alloc") /\ Step(<<Known(Line.m)>> \o TW!AllocChecks(R, Line.m), TW!Alloc(R, Line.m)) /\ UNCHANGED <<expect, div>>

TLpInit ==
  /\ IsEvent("LpInit")
  /\ Step(TW!LpInitChecks(R, Line.lp, Line.m) \o << <<Line.size = Line.calc, "C11", "checkpoint size accounting differs after LP_INIT">> >>,
          TW!LpInit(R, Line.lp, Line.m, Ghost, Line.pred = 1))
  /\ UNCHANGED <<expect, div>>

Content == [lp |-> Line.d, t |-> Line.t, ty |-> Line.ty, pid |-> Line.pid]
TPush ==
  /\ IsEvent("Push")
  /\ Step(<<Known(Line.m)>> \o TW!PushChecks(R, Line.m, Line.q, Content)
          \o << <<expect[R] \in {0, Line.m}, "C06", "thread re-inserted a different message than the one it had to">> >>,
          TW!Push(R, Line.m, Line.q, Content))
  /\ expect' = [expect EXCEPT ![R] = 0] /\ UNCHANGED div

NoExpect == <<expect[R] = 0, "C06", "a message that had to be re-inserted into a queue was dropped">>

TSend ==
  /\ IsEvent("Send")
  /\ IF Line.rem = 1
     THEN Step(<<Known(Line.m), NoExpect>> \o TW!SendRemoteChecks(R, Line.lp, Line.m, Content), TW!SendRemote(R, Line.lp, Line.m, Content))
     ELSE Step(<<Known(Line.m), NoExpect>> \o TW!SendChecks(R, Line.lp, Line.m), TW!Send(R, Line.lp, Line.m))
  /\ UNCHANGED <<expect, div>>
\* for an anti-message the fake MPI logs the sender's buffer of the send being cancelled: its network identity is the true identity
NetRec == [kind |-> Line.kind, t |-> Line.t, id |-> Line.id, sq |-> Line.sq, src |-> R, nm |-> Line.nm,
           pnm |-> IF Line.kind = "anti" /\ Line.m \in DOMAIN msg THEN msg[Line.m].nm ELSE 0]
TNetSend == IsEvent("NetSend") /\ Step(TW!NetSendChecks(R, Line.nm, NetRec), TW!NetSend(R, Line.nm, NetRec)) /\ UNCHANGED <<expect, div>>
TNetRecv == IsEvent("NetRecv") /\ Step(TW!NetRecvChecks(R, Line.nm), TW!NetRecv(R, Line.nm)) /\ UNCHANGED <<expect, div>>
TAntiRemote == IsEvent("AntiRemote") /\ Step(<<Known(Line.m), NoExpect>> \o TW!AntiRemoteChecks(R, Line.m), TW!AntiRemote(R, Line.m)) /\ UNCHANGED <<expect, div>>
TFreeAtGvt == IsEvent("FreeAtGvt") /\ Step(TW!FreeAtGvtChecks(R, Line.m), TW!FreeAtGvt(R, Line.m)) /\ UNCHANGED <<expect, div>>
TEarlyStore == IsEvent("EarlyStore") /\ Step(<<Known(Line.am)>> \o TW!EarlyStoreChecks(R, Line.lp, Line.am), TW!EarlyStore(R, Line.lp, Line.am)) /\ UNCHANGED <<expect, div>>
TEarlyMatch == IsEvent("EarlyMatch") /\ Step(<<Known(Line.m), Known(Line.am)>> \o TW!EarlyMatchChecks(R, Line.lp, Line.m, Line.am), TW!EarlyMatch(R, Line.lp, Line.m, Line.am)) /\ UNCHANGED <<expect, div>>
TRAntiMatch ==
  /\ IsEvent("RAntiMatch")
  /\ Step(<<Known(Line.m), Known(Line.am)>> \o TW!RAntiMatchChecks(R, Line.lp, Line.m, Line.am, Line.past), TW!RAntiMatch(R, Line.lp, Line.m, Line.am, Line.past))
  /\ UNCHANGED <<expect, div>>
TDrain == IsEvent("Drain") /\ Step(TW!DrainChecks(R, Line.k), TW!Drain(R, Line.k)) /\ UNCHANGED <<expect, div>>
TExtract ==
  /\ IsEvent("Extract")
  /\ Step(<<Known(Line.m), NoExpect, TW!NoPendingVote(R)>> \o TW!ExtractChecks(R, Line.m), TW!Extract(R, Line.m))
  /\ UNCHANGED expect
  \* strict: among equal timestamps the queue order is anti-messages first, then the content order
  /\ div' = IF ~TW!Live(Line.m) THEN div
            \* (only among events that are not cancelled: the heap position of an entry is not revised when its flag changes)
            \* (and only when no entry with that timestamp was cancelled while queued: its stale position also perturbs the order of the others)
            ELSE Diverge(TW!HasAnti(msg[Line.m].flags) \/ (\E x \in TW!HeapOf(R) : msg[x].t = msg[Line.m].t /\ TW!HasAnti(msg[x].flags)) \/
                         \A x \in TW!HeapOf(R) : ~(msg[x].t = msg[Line.m].t /\ ~TW!HasAnti(msg[x].flags)
                                                     /\ msg[x].ty # -1 /\ MD!EvBefore(MsgEv(x), MsgEv(Line.m))),
                         "extracted event is not first in the content order among the events with its timestamp")

FlagsAgree(m, old) == <<TW!Live(m) => msg[m].flags = old, "DIV", "flag word read by the code differs from the reconstructed one">>

TFlag ==
  /\ IsEvent("Flag")
  /\ Step(<<Known(Line.m), FlagsAgree(Line.m, Line.old)>> \o TW!FlagChecks(R, Line.m, Line.old), TW!Flag(R, Line.m, Line.old))
  /\ UNCHANGED <<expect, div>>

TRbBegin ==
  /\ IsEvent("RbBegin")
  /\ Step(<<NoExpect>> \o TW!RbBeginChecks(R, Line.lp, Line.past), TW!RbBegin(R, Line.lp, Line.past))
  /\ UNCHANGED expect
  /\ LET m == hand[R] IN
     div' = IF m = 0 \/ ~TW!Live(m) \/ (TW!FromNet(m) /\ TW!HasAnti(msg[m].flags)) THEN div
            \* (the code branched on the flag word it read at extraction; the cancellation flag may have been set since by the sender: a
            \* rollback for an anti-message is recognised by the message being in the history)
            ELSE IF TW!IdxOf(Line.lp, "e", m) # {}
                 THEN Diverge(Line.past = RefMatchAnti(Line.lp, m), "rollback point chosen for an anti-message differs from match_anti_msg")
                 ELSE Diverge(Line.past = RefMatchStraggler(Line.lp, m), "rollback point chosen for a straggler differs from match_straggler_msg")

TAntiLocal ==
  /\ IsEvent("AntiLocal")
  /\ IF TW!Failed(<<Known(Line.m), NoExpect, FlagsAgree(Line.m, Line.old)>> \o TW!AntiLocalChecks(R, Line.m, Line.old)) = <<>>
     THEN /\ TW!AntiLocal(R, Line.m, Line.old) /\ bad' = <<>>
          /\ expect' = [expect EXCEPT ![R] = IF TW!AntiNeedsInsert(Line.old) THEN Line.m ELSE 0] /\ UNCHANGED div
     ELSE /\ bad' = Report(<<Known(Line.m), NoExpect, FlagsAgree(Line.m, Line.old)>> \o TW!AntiLocalChecks(R, Line.m, Line.old))
          /\ UNCHANGED <<twvars, expect, div>>

TUndo ==
  /\ IsEvent("Undo")
  /\ IF TW!Failed(<<Known(Line.m), NoExpect, FlagsAgree(Line.m, Line.old)>> \o TW!UndoChecks(R, Line.m, Line.old)) = <<>>
     THEN /\ TW!Undo(R, Line.m, Line.old) /\ bad' = <<>>
          /\ expect' = [expect EXCEPT ![R] = IF TW!UndoNeedsInsert(Line.old) THEN Line.m ELSE 0] /\ UNCHANGED div
     ELSE /\ bad' = Report(<<Known(Line.m), NoExpect, FlagsAgree(Line.m, Line.old)>> \o TW!UndoChecks(R, Line.m, Line.old))
          /\ UNCHANGED <<twvars, expect, div>>

TRestore ==
  /\ IsEvent("Restore")
  /\ Step(<<NoExpect>> \o TW!RestoreChecks(R, Line.lp, Line.last, Line.past), TW!Restore(R, Line.lp, Line.last, Line.past))
  /\ UNCHANGED expect
  /\ div' = Diverge(Line.last = RefNewestRef(Line.lp, Line.past), "restored checkpoint is not the newest one not after the rollback point")

TRbEnd == IsEvent("RbEnd") /\ Step(TW!RbEndChecks(R, Line.lp, Ghost, Line.size, Line.calc), TW!RbEnd(R, Line.lp, Ghost)) /\ UNCHANGED <<expect, div>>

TExec ==
  /\ IsEvent("Exec")
  /\ Step(<<Known(Line.m), NoExpect>> \o TW!ExecChecks(R, Line.lp, Line.m, Line.size, Line.calc),
          TW!Exec(R, Line.lp, Line.m, Ghost, Line.pred = 1))
  /\ UNCHANGED <<expect, div>>

TCkpt == IsEvent("Ckpt") /\ Step(TW!CkptChecks(R, Line.lp, Line.ref, Line.size), TW!Ckpt(R, Line.lp, Line.ref, Line.size)) /\ UNCHANGED <<expect, div>>

\* C03 / C01: the j-th event released now is the (cpos+j)-th event of the sequential history,
\* with the same content and the same resulting state
MatchesRef(p, e, k) ==
  /\ k <= Len(Ref[p])
  /\ LET x == Ref[p][k] IN
       /\ e.t = x.t /\ e.ty = x.ty /\ e.pid = x.pid
       /\ e.g.s = x.s /\ e.g.cnt = x.cnt /\ e.g.a = x.dgA /\ e.g.b = x.dgB
       /\ e.pred = (x.pred = 1)
ContentMatchesRef(p, e, k) ==
  /\ k <= Len(Ref[p])
  /\ LET x == Ref[p][k] IN e.t = x.t /\ e.ty = x.ty /\ e.pid = x.pid
CommitChecks(p, es) ==
  << <<\A j \in 1..Len(es) : ContentMatchesRef(p, es[j], cpos[p] + j),
       "C03", "committed history is not a prefix of the sequential history (order/content)">>,
     <<\A j \in 1..Len(es) : MatchesRef(p, es[j], cpos[p] + j),
       "C01", "state after a committed event differs from the sequential execution">> >>

TFossil ==
  /\ IsEvent("Fossil")
  /\ Step(TW!FossilChecks(R, Line.lp, Line.gvt, Line.k)
          \o (IF Line.k <= Len(hist[Line.lp]) THEN CommitChecks(Line.lp, TW!CommittedOf(Line.lp, Line.k)) ELSE <<>>),
          TW!Fossil(R, Line.lp, Line.gvt, Line.k))
  /\ UNCHANGED expect
  /\ div' = Diverge(Line.k = RefFossilN(Line.lp, Line.gvt), "number of history entries released differs from fossil_lp_collect")

TFree == IsEvent("Free") /\ Step(<<Known(Line.m)>> \o TW!FreeChecks(R, Line.m), TW!Free(R, Line.m)) /\ UNCHANGED <<expect, div>>

TTermCtrl == IsEvent("TermCtrl") /\ Step(<<>>, TW!TermCtrl) /\ UNCHANGED <<expect, div>>
TGvt == IsEvent("Gvt") /\ Step(<<TW!NoPendingVote(R)>> \o (IF MultiRank THEN <<>> ELSE <<TW!Announced(R)>>) \o TW!GvtChecks(R, Line.val), TW!Gvt(R, Line.val)) /\ UNCHANGED <<expect, div>>

TTermLp ==
  /\ IsEvent("TermLp")
  /\ IF Line.init = 1
     THEN Step(<<>>, TW!TermInit(R, Line.lp, Line.term = 1))
     ELSE Step(<<>>, TW!TermLp(R, Line.lp, Line.t, Line.term = 1))
  /\ UNCHANGED <<expect, div>>
TTermUndo == IsEvent("TermUndo") /\ Step(<<>>, TW!TermUndo(R, Line.lp, Line.keep = 1)) /\ UNCHANGED <<expect, div>>
TVote == IsEvent("Vote") /\ Step(TW!VoteChecks(R, Line.gvt, TermTime), TW!Vote(R, Line.gvt)) /\ UNCHANGED <<expect, div>>
\* the model handler was handed an event that no LP ever scheduled (the harness abandons the run after reporting it)
TBadDispatch ==
  /\ IsEvent("BadDispatch")
  /\ LET w == IF Line.silent = 1 THEN "coast forward re-executed an entry of the history that is not an event of the LP (the model was handed an event nobody scheduled)"
                                ELSE "the model was handed an event that nobody scheduled" IN
     Step(<< <<FALSE, "C05", w>>, <<FALSE, "C01", w>>, <<FALSE, "C02", w>>, <<FALSE, "C06", w>>, <<FALSE, "C09", w>>, <<FALSE, "C03", w>>, <<FALSE, "C11", w>> >>, UNCHANGED twvars)
  /\ UNCHANGED <<expect, div>>
TStop == IsEvent("Stop") /\ Step(<<>>, TW!Stop) /\ UNCHANGED <<expect, div>>
TLoopExit == IsEvent("LoopExit") /\ Step(<<NoExpect, TW!NoPendingVote(R)>> \o TW!LoopExitChecks(R, TermTime), TW!LoopExit(R)) /\ UNCHANGED <<expect, div>>

TFiniStage ==
  /\ IsEvent("Fini")
  /\ IF Line.st = 3 THEN Step(TW!QueueFiniChecks(R), TW!QueueFini(R)) ELSE (bad' = <<>> /\ UNCHANGED twvars)
  /\ UNCHANGED <<expect, div>>

\* at LP_FINI everything still held below the last GVT is committed too
FinalCommitted(p) == SelectSeq(hist[p], LAMBDA e : e.k = "e" /\ e.ty # 65534 /\ e.t < TW!LastGvt)
RefBelow(p, g) == Cardinality({k \in 1..Len(Ref[p]) : Ref[p][k].t < g})
TLpFini ==
  /\ IsEvent("LpFini")
  /\ Step(TW!LpFiniChecks(R, Line.lp) \o CommitChecks(Line.lp, FinalCommitted(Line.lp))
          \o << <<cpos[Line.lp] + Len(FinalCommitted(Line.lp)) = RefBelow(Line.lp, TW!LastGvt),
                  "C03", "an event of the sequential history below the last GVT was never committed">> >>,
          TW!LpFini(R, Line.lp))
  /\ UNCHANGED <<expect, div>>

TEnd ==
  /\ IsEvent("End")
  /\ bad' = Report(<< <<\A p \in TW!LpSet : finiLp[p], "C08", "run returned without LP_FINI for every LP">>,
                     <<Line.ret = 0, "C08", "RootsimRun returned an error">>,
                     <<Line.bad = 0, "C12", "allocator/library contract violated inside the model">>,
                     <<\A m \in DOMAIN msg : (msg[m].nm = 0 /\ ~msg[m].rem) => ~TW!HasAnti(msg[m].flags), "C06", "a cancelled message was never released">>,
                     <<(TW!LastGvt = InfC /\ ~stopped) => \A p \in TW!LpSet : early[p] = {}, "C06", "an early remote anti-message was never matched with the event it cancels">>,
                     <<(TW!LastGvt = InfC /\ ~stopped) => \A x \in DOMAIN net : net[x].kind = "ctrl", "C06", "an event or anti-message sent to another rank was never received">> >>)
  /\ UNCHANGED <<twvars, expect, div>>

\* C08 promises a return only once a termination condition holds: every LP's predicate true on a committed state,
\* GVT at the termination time, or RootsimStop.  A run cut by the step budget before that (e.g. unbounded
\* speculation ahead of a cancellation wave) is inconclusive, not a violation.
MustReturn == stopped \/ TW!LastGvt >= TermTime \/ \A p \in TW!LpSet : TW!HeldCommitted(p, TW!LastGvt)
THang ==
  /\ IsEvent("Hang")
  /\ bad' = IF MustReturn THEN <<[p |-> "C08", w |-> "run does not return (deadlock or livelock): " \o Line.why, at |-> l]>> ELSE <<>>
  /\ UNCHANGED <<twvars, expect, div>>
TCrash ==
  /\ IsEvent("Crash")
  /\ bad' = <<[p |-> "C11", w |-> "runtime crashed with signal " \o ToString(Line.sig), at |-> l]>>
  /\ UNCHANGED <<twvars, expect, div>>

TNext ==
  \/ TConfig \/ TReset \/ TSkip \/ TAlloc \/ TLpInit \/ TPush \/ TSend \/ TDrain \/ TExtract \/ TFlag \/ TRbBegin \/ TAntiLocal
  \/ TUndo \/ TRestore \/ TRbEnd \/ TExec \/ TCkpt \/ TFossil \/ TFree \/ TGvt \/ TTermLp \/ TTermUndo \/ TVote \/ TStop \/ TBadDispatch
  \/ TLoopExit \/ TTermCtrl \/ TNetSend \/ TNetRecv \/ TAntiRemote \/ TFreeAtGvt \/ TEarlyStore \/ TEarlyMatch \/ TRAntiMatch \/ TFiniStage \/ TLpFini \/ TEnd \/ THang \/ TCrash
TSpec == TInit /\ [][TNext]_tvars

Progress == TLCSet(1, IF l > TLCGet(1) THEN l ELSE TLCGet(1)) /\ (bad # <<>> => TLCSet(2, bad)) /\ TLCSet(3, div)
Post == PrintT(<<"RESULT", TLCGet(1) - 1, Len(TraceLog), TLCGet(2)>>) /\ PrintT(<<"DIVERGENCES", TLCGet(3)>>)
=============================================================================
