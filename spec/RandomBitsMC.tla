---------------------------- MODULE RandomBitsMC ----------------------------
(* exhaustive evaluation for a reduced word width: every raw output *)
EXTENDS RandomBits, TLC
CONSTANT W
VARIABLE x
Init == x = 0
Next == x' = x
Spec == Init /\ [][Next]_x
RECURSIVE Words(_)
Words(n) == IF n = 0 THEN {<<>>} ELSE {<<b>> \o w : b \in {0, 1}, w \in Words(n - 1)}
AllInRange == \A u \in Words(W) : InUnitInterval(u, 1023)
\* the only raw output for which the C shift is undefined is 0...01 (lzs = W): it must be guarded
UndefinedShiftOnlyForOne == \A u \in Words(W) : ~ShiftDefined(u) <=> (u[W] = 1 /\ \A i \in 1..(W - 1) : u[i] = 0)
=============================================================================
