SPECIFICATION FairSpec
CONSTANTS K = 2 MaxT = 2 MaxMsgs = 3 MaxRounds = 1 Inf = 99
INVARIANT NeverBelowSeen
INVARIANT Agreed
INVARIANT OldColourDrained
INVARIANT CountersSane
PROPERTY NothingBelowGvt
PROPERTY Monotone
PROPERTY RoundsComplete
CHECK_DEADLOCK FALSE
