SPECIFICATION Spec
CONSTANTS MaxL = 120 MaxN = 8 MaxT = 8
INVARIANT AllOk
