SPECIFICATION Spec
CONSTANTS ThreadsC = {0, 1, 2}  NLpC = 3  OwnerOf <- M3_Owner  InitEv <- M3_Init  Trans <- M3_Trans  MaxMsg = 16  CkptEvery = 1  MaxGvt = 0  RecordSched = FALSE
INVARIANT NoCheckFails
INVARIANT PoolSufficient
INVARIANT C01_FinalEqualsSequential
INVARIANT C06_NothingLeft
CHECK_DEADLOCK FALSE
