SPECIFICATION Spec
CONSTANT W = 12
INVARIANT AllInRange
INVARIANT UndefinedShiftOnlyForOne
