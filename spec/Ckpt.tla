-------------------------------- MODULE Ckpt --------------------------------
(***************************************************************************)
(* The rollbackable allocator of one LP (src/mm/buddy/multi.c, ckpt.c):    *)
(* several buddy arenas kept in address order, full checkpoints tagged     *)
(* with a history reference, restore, fossil collection.  Properties C12   *)
(* (multi-arena part), C05 (restore), C13 (fossil), C11 (size accounting). *)
(*                                                                         *)
(* Block contents are abstracted to a tag per live block (the driver fills *)
(* a block with a tag-derived pattern and reads it back).                  *)
(***************************************************************************)
EXTENDS Buddy, TLC

CONSTANTS H0,   \* offsetof(mm_checkpoint, chkps) + sizeof(struct buddy_state *)
          HA    \* offsetof(struct buddy_checkpoint, base_mem): per-arena header in a checkpoint

VARIABLES
  arenas,   \* Seq of [id, lon, cont] in address order; cont: off -> tag for live blocks
  logs,     \* Seq of [ref, snap, size]; snap: Seq of [id, lon, cont]
  size,     \* mm_state.full_ckpt_size
  nextId    \* identity of the next arena created

cvars == <<arenas, logs, size, nextId>>

CInit == arenas = <<>> /\ logs = <<>> /\ size = H0 /\ nextId = 1

NewArena(id) == [id |-> id, lon |-> InitLongest, cont |-> <<>>]
Put(f, k, v) == [x \in (DOMAIN f) \cup {k} |-> IF x = k THEN v ELSE f[x]]
Del(f, k) == [x \in (DOMAIN f) \ {k} |-> f[x]]
InsertAt(s, i, e) == SubSeq(s, 1, i - 1) \o <<e>> \o SubSeq(s, i, Len(s))

\* the number of bytes checkpoint_full_take writes for the current state
RECURSIVE SumBlocks(_)
SumBlocks(S) == IF S = {} THEN 0 ELSE LET b == CHOOSE x \in S : TRUE IN Pow2(b.exp) + SumBlocks(S \ {b})
RECURSIVE SumArenas(_, _)
SumArenas(as, i) == IF i = 0 THEN 0 ELSE HA + SumBlocks(Blocks(as[i].lon)) + SumArenas(as, i - 1)
SizeOf(as) == H0 + SumArenas(as, Len(as))
SizeExact == size = SizeOf(arenas)

\* rs_malloc: newest-to-oldest scan (highest address first); returns <<arena index or 0, offset>>
RECURSIVE ScanFrom(_, _)
ScanFrom(i, e) == IF i = 0 THEN 0 ELSE IF MallocOk(arenas[i].lon, e) THEN i ELSE ScanFrom(i - 1, e)
MallocArena(e) == ScanFrom(Len(arenas), e)

\* allocation of 2^e bytes; pos is where a new arena (if needed) is inserted (address order: from the log)
MallocE(e, pos, tag) ==
  LET k == MallocArena(e) IN
  IF k # 0
  THEN /\ arenas' = [arenas EXCEPT ![k] = [@ EXCEPT !.lon = MallocLon(@, e), !.cont = Put(@, MallocOff(arenas[k].lon, e), tag)]]
       /\ size' = size + Pow2(e)
       /\ nextId' = nextId
  ELSE LET a == NewArena(nextId) IN
       /\ arenas' = InsertAt(arenas, pos, [a EXCEPT !.lon = MallocLon(a.lon, e), !.cont = Put(<<>>, MallocOff(a.lon, e), tag)])
       /\ size' = size + Pow2(e) + HA
       /\ nextId' = nextId + 1
\* where the block ends up: <<arena index in the NEW array, offset>>
MallocPlace(e, pos) ==
  LET k == MallocArena(e) IN IF k # 0 THEN <<k, MallocOff(arenas[k].lon, e)>> ELSE <<pos, MallocOff(InitLongest, e)>>

FreeAt(k, off) ==
  /\ arenas' = [arenas EXCEPT ![k] = [@ EXCEPT !.lon = FreeLon(@, off), !.cont = Del(@, off)]]
  /\ size' = size - FreeSize(arenas[k].lon, off)
  /\ nextId' = nextId

WriteAt(k, off, tag) ==
  /\ arenas' = [arenas EXCEPT ![k].cont = Put(@, off, tag)]
  /\ UNCHANGED <<size, nextId>>

\* model_allocator_checkpoint_take(ref)
Take(ref) ==
  /\ logs' = Append(logs, [ref |-> ref, snap |-> arenas, size |-> size])
  /\ UNCHANGED <<arenas, size, nextId>>

\* newest checkpoint with ref <= target
RECURSIVE NewestLE(_, _)
NewestLE(i, target) == IF i = 0 THEN 0 ELSE IF logs[i].ref <= target THEN i ELSE NewestLE(i - 1, target)

\* model_allocator_checkpoint_restore(target): arenas that existed at the checkpoint get their tree and
\* contents back, arenas created later are re-initialised (and stay, each costing a header)
SnapOf(snap, id) == CHOOSE s \in {snap[j] : j \in 1..Len(snap)} : s.id = id
InSnap(snap, id) == \E j \in 1..Len(snap) : snap[j].id = id
Restore(target) ==
  LET i == NewestLE(Len(logs), target)
      snap == logs[i].snap IN
  /\ arenas' = [k \in 1..Len(arenas) |-> IF InSnap(snap, arenas[k].id) THEN SnapOf(snap, arenas[k].id) ELSE NewArena(arenas[k].id)]
  /\ size' = logs[i].size + HA * Cardinality({k \in 1..Len(arenas) : ~InSnap(snap, arenas[k].id)})
  /\ logs' = SubSeq(logs, 1, i)
  /\ nextId' = nextId
RestoreRef(target) == logs[NewestLE(Len(logs), target)].ref

\* model_allocator_fossil_lp_collect(tgt): keep the newest checkpoint with ref <= tgt, re-base later ones
Fossil(tgt) ==
  LET i == NewestLE(Len(logs), tgt)
      r == logs[i].ref IN
  /\ logs' = [j \in 1..(Len(logs) - i + 1) |-> [logs[i + j - 1] EXCEPT !.ref = @ - r]]
  /\ UNCHANGED <<arenas, size, nextId>>
FossilRef(tgt) == logs[NewestLE(Len(logs), tgt)].ref

(***************************************************************************)
(* Invariants                                                              *)
(***************************************************************************)
RefsIncrease == \A j \in 1..(Len(logs) - 1) : logs[j].ref < logs[j + 1].ref
SnapSizes == \A j \in 1..Len(logs) : logs[j].size = SizeOf(logs[j].snap)
ArenasOk == \A k \in 1..Len(arenas) :
              /\ Consistent(arenas[k].lon, Blocks(arenas[k].lon))
              /\ Disjoint(Blocks(arenas[k].lon))
              /\ DOMAIN arenas[k].cont = {b.off : b \in Blocks(arenas[k].lon)}
=============================================================================
