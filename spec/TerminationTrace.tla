------------------------- MODULE TerminationTrace -------------------------
(***************************************************************************)
(* Binds Termination to the real src/gvt/termination.c: harness/termdrv.c  *)
(* drives termination_lp_init / _on_msg_process / _on_lp_rollback /        *)
(* _on_gvt with legal environment sequences and logs its calls plus what   *)
(* the code reported through the observation hooks (Vote).  The verdict is *)
(* C07 evaluated on the REAL votes; the transcribed accounting is compared *)
(* as well, a difference there is only counted (conformance divergence).   *)
(***************************************************************************)
EXTENDS Termination, TLC, Json, IOUtils

TraceLog == ndJsonDeserialize(IOEnv.TRACE)

VARIABLES l, bad, rvoted, rvoteGvt, div
tvars == <<vars, l, bad, rvoted, rvoteGvt, div>>
Line == TraceLog[l]
IsEvent(e) == l <= Len(TraceLog) /\ bad = <<>> /\ Line.e = e /\ l' = l + 1

TInit == Init /\ l = 1 /\ bad = <<>> /\ rvoted = FALSE /\ rvoteGvt = 0 /\ div = 0 /\ TLCSet(1, 0) /\ TLCSet(2, <<>>) /\ TLCSet(3, 0)

TReset ==
  /\ IsEvent("Reset")
  /\ ev' = [p \in LPs |-> <<>>] /\ inited' = 0 /\ initPred' = [p \in LPs |-> FALSE] /\ gvt' = 0
  /\ termT' = [p \in LPs |-> None] /\ lpsToEnd' = 0 /\ maxT' = 0 /\ voted' = FALSE /\ voteGvt' = 0
  /\ rvoted' = FALSE /\ rvoteGvt' = 0
  /\ UNCHANGED <<bad, div>>

TLpInit == IsEvent("Init") /\ LpInit(Line.lp, Line.pred = 1) /\ UNCHANGED <<bad, rvoted, rvoteGvt, div>>
TProc == IsEvent("Proc") /\ Process(Line.lp, Line.t, Line.pred = 1) /\ UNCHANGED <<bad, rvoted, rvoteGvt, div>>
TRb == IsEvent("Rb") /\ Rollback(Line.lp, Line.k, Line.t) /\ UNCHANGED <<bad, rvoted, rvoteGvt, div>>
TG == IsEvent("G") /\ Gvt(Line.g) /\ UNCHANGED <<bad, rvoted, rvoteGvt, div>>

RealHeld(g) == g >= TermTime \/ \A p \in LPs : HeldCommitted(p, g)
TVote ==
  /\ IsEvent("Vote")
  /\ rvoted' = TRUE /\ rvoteGvt' = Line.gvt
  /\ bad' = IF RealHeld(Line.gvt) THEN <<>>
            ELSE <<[p |-> "C07", w |-> "thread voted to terminate although an LP's predicate has not held on a committed state", at |-> l]>>
  /\ div' = div + (IF voted /\ Line.lte = lpsToEnd THEN 0 ELSE 1)
  /\ UNCHANGED vars
\* the accounting values reported by the hooks
TTermLp ==
  /\ IsEvent("TermLp")
  /\ div' = div + (IF (Line.term = 1) = (termT[Line.lp] # None) THEN 0 ELSE 1)
  /\ UNCHANGED <<vars, bad, rvoted, rvoteGvt>>
TTermUndo ==
  /\ IsEvent("TermUndo")
  /\ div' = div + (IF (Line.keep = 0) => (termT[Line.lp] = None) THEN 0 ELSE 1)
  /\ UNCHANGED <<vars, bad, rvoted, rvoteGvt>>
TSkip == (IsEvent("TermCtrl") \/ IsEvent("End")) /\ UNCHANGED <<vars, bad, rvoted, rvoteGvt, div>>

TNext == TReset \/ TLpInit \/ TProc \/ TRb \/ TG \/ TVote \/ TTermLp \/ TTermUndo \/ TSkip
TSpec == TInit /\ [][TNext]_tvars

Progress == TLCSet(1, IF l > TLCGet(1) THEN l ELSE TLCGet(1)) /\ (bad # <<>> => TLCSet(2, bad)) /\ TLCSet(3, div)
Post == PrintT(<<"RESULT", TLCGet(1) - 1, Len(TraceLog), TLCGet(2)>>) /\ PrintT(<<"DIVERGENCES", TLCGet(3)>>)
=============================================================================
