------------------------- MODULE TerminationTrace -------------------------
(***************************************************************************)
(* Binds Termination to the real src/gvt/termination.c: harness/termdrv.c  *)
(* drives termination_lp_init / _on_msg_process / _on_lp_rollback /        *)
(* _on_gvt with legal environment sequences and logs its calls plus what   *)
(* the code reported through the observation hooks (Vote).  The verdict is *)
(* C07 evaluated on the REAL votes; the transcribed accounting is compared *)
(* as well, a difference there is only counted (conformance divergence).   *)
(***************************************************************************)
EXTENDS Termination, TLC, Json, IOUtils

TraceLog == ndJsonDeserialize(IOEnv.TRACE)

VARIABLES l, bad, rvoted, rvoteGvt, div,
          maxd,    \* largest timestamp at which any LP ever declared (an upper bound of what the thread's max_t can hold)
          tie,     \* LP -> its last rollback was caused by a message with the timestamp of its last kept event: the code cannot tell whether the
                   \* declaring event was kept (it compares times) and waits for the next event of the LP; no obligation is derived then
          mustv    \* number of consecutive GVT values (nothing processed or rolled back in between) at which the thread was obliged to vote
                   \* - every LP is terminated for the accounting of Termination.tla (or its predicate held at initialisation) below the GVT,
                   \* and the GVT is above every timestamp at which an LP ever declared - and has not
tvars == <<vars, l, bad, rvoted, rvoteGvt, div, maxd, tie, mustv>>
Line == TraceLog[l]
IsEvent(e) == l <= Len(TraceLog) /\ bad = <<>> /\ Line.e = e /\ l' = l + 1

TInit == Init /\ l = 1 /\ bad = <<>> /\ rvoted = FALSE /\ rvoteGvt = 0 /\ div = 0 /\ maxd = 0 /\ tie = [p \in LPs |-> FALSE] /\ mustv = 0 /\ TLCSet(1, 0) /\ TLCSet(2, <<>>) /\ TLCSet(3, 0)

\* (a check that does not own C08 switches this obligation off, so that its own failures further down the trace are still reached)
OwnC08 == IF "OWNC08" \in DOMAIN IOEnv THEN IOEnv.OWNC08 = "1" ELSE TRUE
Missing == IF mustv >= 2 /\ OwnC08 THEN <<[p |-> "C08", w |-> "every LP is terminated below the GVT and the GVT is above every declaration, for two GVT values in a row, but the thread does not vote (the run would never end)", at |-> l - 1]>>
           ELSE <<>>
TReset ==
  /\ IsEvent("Reset")
  /\ ev' = [p \in LPs |-> <<>>] /\ inited' = 0 /\ initPred' = [p \in LPs |-> FALSE] /\ gvt' = 0
  /\ termT' = [p \in LPs |-> None] /\ lpsToEnd' = 0 /\ maxT' = 0 /\ voted' = FALSE /\ voteGvt' = 0
  /\ rvoted' = FALSE /\ rvoteGvt' = 0 /\ maxd' = 0 /\ tie' = [p \in LPs |-> FALSE] /\ mustv' = 0
  /\ bad' = Missing /\ UNCHANGED div

TLpInit == IsEvent("Init") /\ LpInit(Line.lp, Line.pred = 1) /\ UNCHANGED <<bad, rvoted, rvoteGvt, div, maxd, tie, mustv>>
TProc == IsEvent("Proc") /\ Process(Line.lp, Line.t, Line.pred = 1) /\ bad' = Missing /\ mustv' = 0
         /\ maxd' = (IF Line.pred = 1 /\ Line.t > maxd THEN Line.t ELSE maxd) /\ tie' = [tie EXCEPT ![Line.lp] = FALSE] /\ UNCHANGED <<rvoted, rvoteGvt, div>>
TRb == IsEvent("Rb") /\ Rollback(Line.lp, Line.k, Line.t) /\ bad' = Missing /\ mustv' = 0
       /\ tie' = [tie EXCEPT ![Line.lp] = ~initPred[Line.lp] /\ Line.k >= 1 /\ ev[Line.lp][Line.k].t = Line.t]
       /\ UNCHANGED <<rvoted, rvoteGvt, div, maxd>>
\* C08 (every run returns): once every LP's predicate holds on a committed state and the GVT is above every timestamp at which an LP
\* ever declared, nothing can make the thread wait any longer: it has to vote at this GVT
TG == IsEvent("G") /\ Gvt(Line.g) /\ bad' = Missing
      /\ mustv' = (IF ~rvoted /\ Line.g < TermTime /\ Line.g > maxd /\ (\A p \in LPs : initPred[p] \/ (termT'[p] # None /\ termT'[p] < Line.g))
                   THEN mustv + 1 ELSE 0)
      /\ UNCHANGED <<rvoted, rvoteGvt, div, maxd, tie>>

RealHeld(g) == g >= TermTime \/ \A p \in LPs : HeldCommitted(p, g)
TVote ==
  /\ IsEvent("Vote")
  /\ rvoted' = TRUE /\ rvoteGvt' = Line.gvt
  /\ bad' = IF RealHeld(Line.gvt) THEN <<>>
            ELSE <<[p |-> "C07", w |-> "thread voted to terminate although an LP's predicate has not held on a committed state", at |-> l],
                   [p |-> "C01", w |-> "thread voted to terminate although an LP's predicate has not held on a committed state (the run can end before the sequential result is reached)", at |-> l]>>
  /\ div' = div + (IF voted /\ Line.lte = lpsToEnd THEN 0 ELSE 1)
  /\ mustv' = 0 /\ UNCHANGED <<maxd, tie>>
  /\ UNCHANGED vars
\* the accounting values reported by the hooks
TTermLp ==
  /\ IsEvent("TermLp")
  /\ div' = div + (IF (Line.term = 1) = (termT[Line.lp] # None) THEN 0 ELSE 1)
  /\ UNCHANGED <<vars, bad, rvoted, rvoteGvt, maxd, tie, mustv>>
TTermUndo ==
  /\ IsEvent("TermUndo")
  /\ div' = div + (IF (Line.keep = 0) => (termT[Line.lp] = None) THEN 0 ELSE 1)
  /\ UNCHANGED <<vars, bad, rvoted, rvoteGvt, maxd, tie, mustv>>
TSkip == (IsEvent("TermCtrl") \/ IsEvent("End")) /\ UNCHANGED <<vars, bad, rvoted, rvoteGvt, div, maxd, tie, mustv>>

TNext == TReset \/ TLpInit \/ TProc \/ TRb \/ TG \/ TVote \/ TTermLp \/ TTermUndo \/ TSkip
TSpec == TInit /\ [][TNext]_tvars

Progress == TLCSet(1, IF l > TLCGet(1) THEN l ELSE TLCGet(1)) /\ (bad # <<>> => TLCSet(2, bad)) /\ TLCSet(3, div)
Post == PrintT(<<"RESULT", TLCGet(1) - 1, Len(TraceLog), TLCGet(2)>>) /\ PrintT(<<"DIVERGENCES", TLCGet(3)>>)
=============================================================================
