SPECIFICATION SFairSpec
CONSTANTS N = 2 MaxT = 2 MaxMsgs = 2 MaxRounds = 4 Inf = 99 RetestBeforeInitiate = FALSE
CONSTANT VoteAt <- VoteAtQ
INVARIANT SafeDuringTeardown
PROPERTY AllReturn
CHECK_DEADLOCK FALSE
