SPECIFICATION TSpec
CONSTRAINT Progress
INVARIANT TimeMonotone
INVARIANT NoPastSend
POSTCONDITION Post
CHECK_DEADLOCK FALSE
