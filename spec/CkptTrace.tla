----------------------------- MODULE CkptTrace -----------------------------
(***************************************************************************)
(* Binds Buddy/Ckpt to the real allocator: harness/ckptdrv.c performs      *)
(* random histories on src/mm/buddy (small-arena build) and logs each call *)
(* with its result and the projected state: for every arena its identity,  *)
(* the tree `longest', the live blocks with the content tag read back from *)
(* memory; the checkpoint-size counter; the checkpoint references.         *)
(*                                                                         *)
(* Two layers.  RECONSTRUCTION: the state after a call is taken from the   *)
(* projection the code reports.  VERDICT: the property statements relate   *)
(* the state before the call, the call and the state after it (valid,      *)
(* disjoint, stable blocks; exact restore; what a fossil collection keeps; *)
(* size accounting recomputed from the real trees).  CONFORMANCE: the next *)
(* state predicted by the Ckpt actions (arena scan order, descent rule,    *)
(* kept arenas) is compared as well; a difference is only counted (a       *)
(* different placement policy is not a property violation).                *)
(***************************************************************************)
EXTENDS Ckpt, Json, IOUtils

TraceLog == ndJsonDeserialize(IOEnv.TRACE)
VARIABLES l, bad, div
tvars == <<cvars, l, bad, div>>
Line == TraceLog[l]
IsEvent(e) == l <= Len(TraceLog) /\ bad = <<>> /\ Line.e = e /\ l' = l + 1

(* ---------- reading the logged projection ---------- *)
LogLon(a) == [i \in Nodes |-> a.lon[i + 1]]
LogCont(a) == [o \in {a.blocks[j][1] : j \in 1..Len(a.blocks)} |->
                 (CHOOSE j \in 1..Len(a.blocks) : a.blocks[j][1] = o) ]
ContOf(a) == [o \in {a.blocks[j][1] : j \in 1..Len(a.blocks)} |-> a.blocks[CHOOSE j \in 1..Len(a.blocks) : a.blocks[j][1] = o][3]]
ArenasOf(P) == [k \in 1..Len(P.arenas) |-> [id |-> P.arenas[k].id, lon |-> LogLon(P.arenas[k]), cont |-> ContOf(P.arenas[k])]]
LoggedBlocks(a) == {[off |-> a.blocks[j][1], exp |-> a.blocks[j][2]] : j \in 1..Len(a.blocks)}

\* live blocks of a state as a set of [id, off, exp, tag] (arena identity, not position)
LiveOf(as) == UNION {{[id |-> as[k].id, off |-> b.off, exp |-> b.exp, tag |-> as[k].cont[b.off]] : b \in Blocks(as[k].lon)} : k \in 1..Len(as)}
Geo(S) == {[id |-> x.id, off |-> x.off, exp |-> x.exp] : x \in S}
Overlap(a, b) == a.id = b.id /\ ~(a.off + Pow2(a.exp) <= b.off \/ b.off + Pow2(b.exp) <= a.off)

\* the size the real counter must have, recomputed from the REAL trees
RealSize(as) == SizeOf(as)

Rep(cs) == LET f == SelectSeq(cs, LAMBDA c : ~c[1]) IN [i \in 1..Len(f) |-> [p |-> f[i][2], w |-> f[i][3], at |-> l]]

\* statements that hold after every call, on the reported state itself
Always(P, as) ==
  << <<\A k \in 1..Len(as) : LoggedBlocks(P.arenas[k]) = Blocks(as[k].lon) /\ Consistent(as[k].lon, Blocks(as[k].lon)),
       "C12", "allocation tree bookkeeping is inconsistent with the live blocks (longest[] vs largest free block)">>,
     <<\A k \in 1..Len(as) : Disjoint(Blocks(as[k].lon)) /\ \A b \in Blocks(as[k].lon) : WellPlaced(b),
       "C12", "live blocks overlap or are misplaced">>,
     <<\A x \in LiveOf(as) : x.tag >= 0, "C12", "content of a live block was altered by an operation on another block">>,
     <<P.size = RealSize(as), "C11", "full_ckpt_size differs from the bytes a checkpoint of the current state needs">>,
     <<P.size = RealSize(as), "C05", "full_ckpt_size differs from the bytes a checkpoint of the current state needs (checkpoints will be cut short or overflow: a later restore brings back wrong bytes)">>,
     <<\A j \in 1..(Len(P.refs) - 1) : P.refs[j] < P.refs[j + 1], "C13", "checkpoint references are not increasing">> >>

\* adopt the reported state
Adopt(P) == arenas' = ArenasOf(P) /\ size' = P.size /\ nextId' = nextId
SameRefs(lg, P) == Len(lg) = Len(P.refs) /\ \A j \in 1..Len(lg) : lg[j].ref = P.refs[j]

TCfg == IsEvent("Cfg") /\ Line.T = TotalExp /\ Line.B = BlockExp /\ Line.h0 = H0 /\ Line.ha = HA /\ UNCHANGED <<cvars, bad, div>>

ReqExp(req) == BlockExpFor(req)
MallocFails(req) == req = 0 \/ ReqExp(req) > TotalExp
IdAt(as, k) == as[k].id

\* --- conformance predictions (only counted) ---
PredMallocPlace(e, pos) == MallocPlace(e, pos)

TMalloc ==
  /\ IsEvent("Malloc")
  /\ LET P == Line.proj
         as == ArenasOf(P)
         old == LiveOf(arenas)
         new == LiveOf(as) IN
     /\ Adopt(P) /\ UNCHANGED logs
     /\ IF MallocFails(Line.req)
        THEN /\ bad' = Rep(<< <<Line.res[1] = 0, "C12", "zero-size or over-size request did not fail cleanly">>,
                              <<new = old, "C12", "a failed allocation changed the live blocks">> >> \o Always(P, as))
             /\ div' = div
        ELSE LET e == ReqExp(Line.req)
                 b == IF Line.res[1] = 0 THEN [id |-> 0, off |-> 0, exp |-> 0, tag |-> 0]
                      ELSE [id |-> IdAt(as, Line.res[1]), off |-> Line.res[2], exp |-> e, tag |-> Line.tag] IN
             /\ bad' = Rep(<< <<Line.res[1] # 0, "C12", "allocation of a legal size failed">>,
                              <<Line.res[1] # 0 => Pow2(e) >= Line.req /\ b.off % Pow2(e) = 0, "C12", "block smaller than requested or misaligned">>,
                              <<Line.res[1] # 0 => \A x \in old : ~Overlap(x, b), "C12", "new block overlaps a live block">>,
                              <<Line.res[1] # 0 => new = old \cup {b}, "C12", "allocation changed other blocks (set of live blocks or their contents)">>,
                              <<Line.calloc = 1 => Line.zero_ok = 1, "C12", "calloc memory not zeroed">> >> \o Always(P, as))
             /\ div' = div + (IF Line.res[1] # 0 /\ (MallocArena(e) = 0) = (Line.pos # 0) /\ <<Line.res[1], Line.res[2]>> = PredMallocPlace(e, Line.pos)
                              THEN 0 ELSE 1)

TFree ==
  /\ IsEvent("Free")
  /\ LET P == Line.proj
         as == ArenasOf(P)
         old == LiveOf(arenas)
         new == LiveOf(as)
         gone == {x \in old : x.id = IdAt(arenas, Line.k) /\ x.off = Line.off} IN
     /\ Adopt(P) /\ UNCHANGED logs
     /\ bad' = Rep(<< <<new = old \ gone, "C12", "free changed other blocks or did not release the block">> >> \o Always(P, as))
     /\ div' = div + (IF P.size = size - FreeSize(arenas[Line.k].lon, Line.off) THEN 0 ELSE 1)

TWrite ==
  /\ IsEvent("Write")
  /\ LET P == Line.proj
         as == ArenasOf(P)
         old == LiveOf(arenas)
         new == LiveOf(as)
         hit == {x \in old : x.id = IdAt(arenas, Line.k) /\ x.off = Line.off} IN
     /\ Adopt(P) /\ UNCHANGED logs
     /\ bad' = Rep(<< <<new = (old \ hit) \cup {[x EXCEPT !.tag = Line.tag] : x \in hit}, "C12", "a write to one block altered another block">> >> \o Always(P, as))
     /\ div' = div

TRealloc ==
  /\ IsEvent("Realloc")
  /\ LET P == Line.proj
         as == ArenasOf(P)
         old == LiveOf(arenas)
         new == LiveOf(as)
         src == {x \in old : x.id = IdAt(arenas, Line.k) /\ x.off = Line.off} IN
     /\ Adopt(P) /\ UNCHANGED logs
     /\ IF Line.req = 0 \/ ReqExp(Line.req) > TotalExp
        THEN /\ bad' = Rep(<< <<Line.res[1] = 0, "C12", "realloc to size 0 / over-size did not return NULL">>,
                              <<new = old, "C12", "a failed realloc changed the live blocks">> >> \o Always(P, as))
             /\ div' = div
        ELSE LET e == ReqExp(Line.req)
                 b == IF Line.res[1] = 0 THEN [id |-> 0, off |-> 0, exp |-> 0, tag |-> 0]
                      ELSE [id |-> IdAt(as, Line.res[1]), off |-> Line.res[2], exp |-> e, tag |-> Line.tag] IN
             /\ bad' = Rep(<< <<Line.res[1] # 0, "C12", "reallocation to a legal size failed">>,
                              <<Line.res[1] # 0 => Pow2(e) >= Line.req /\ b.off % Pow2(e) = 0, "C12", "reallocated block smaller than requested or misaligned">>,
                              <<Line.prefix_ok = 1, "C12", "realloc did not preserve the common prefix of the content">>,
                              <<Line.res[1] # 0 => \A x \in old \ src : ~Overlap(x, b), "C12", "reallocated block overlaps another live block">>,
                              <<Line.res[1] # 0 => new = (old \ src) \cup {b}, "C12", "realloc changed other blocks">> >> \o Always(P, as))
             /\ div' = div

TTake ==
  /\ IsEvent("Take")
  /\ LET P == Line.proj
         as == ArenasOf(P) IN
     /\ Adopt(P)
     /\ logs' = Append(logs, [ref |-> Line.ref, snap |-> as, size |-> P.size])
     /\ bad' = Rep(<< <<LiveOf(as) = LiveOf(arenas), "C05", "taking a checkpoint changed the live blocks">>,
                      <<SameRefs(logs', P), "C13", "checkpoint log does not end with the new reference">> >> \o Always(P, as))
     /\ div' = div

\* C05: the state after a restore is exactly the state saved by a checkpoint not after the target
TRestore ==
  /\ IsEvent("Restore")
  /\ LET P == Line.proj
         as == ArenasOf(P)
         cands == {j \in 1..Len(logs) : logs[j].ref = Line.ret}
         j == IF cands = {} THEN 0 ELSE CHOOSE x \in cands : TRUE IN
     /\ Adopt(P)
     /\ logs' = IF j = 0 THEN logs ELSE SubSeq(logs, 1, j)
     /\ bad' = Rep(<< <<j # 0, "C05", "restore reports a checkpoint that does not exist">>,
                      <<Line.ret <= Line.target, "C05", "restored a checkpoint taken after the rollback point">>,
                      <<j # 0 => LiveOf(as) = LiveOf(logs[j].snap), "C05", "live blocks or their contents after restore differ from the checkpointed state">>,
                      <<j # 0 => SameRefs(SubSeq(logs, 1, j), P), "C05", "checkpoints newer than the restored one were not discarded (or older ones were)">> >>
                   \o Always(P, as))
     /\ div' = div + (IF Line.ret = RestoreRef(Line.target) /\ Len(as) = Len(arenas) THEN 0 ELSE 1)

\* C13: fossil collection keeps a checkpoint not after the committed frontier, re-bases the references
TFossil ==
  /\ IsEvent("Fossil")
  /\ LET P == Line.proj
         as == ArenasOf(P)
         cands == {j \in 1..Len(logs) : logs[j].ref = Line.ret}
         j == IF cands = {} THEN 0 ELSE CHOOSE x \in cands : TRUE IN
     /\ Adopt(P)
     /\ logs' = IF j = 0 THEN logs ELSE [i \in 1..(Len(logs) - j + 1) |-> [logs[j + i - 1] EXCEPT !.ref = @ - Line.ret]]
     /\ bad' = Rep(<< <<j # 0, "C13", "fossil collection reports a checkpoint that does not exist">>,
                      <<Line.ret <= Line.tgt, "C13", "the kept checkpoint is after the committed frontier: a rollback to the frontier is no longer possible">>,
                      <<P.refs # <<>> /\ P.refs[1] = 0, "C13", "oldest kept checkpoint is not re-based to reference 0">>,
                      <<j # 0 => SameRefs(logs', P), "C13", "kept checkpoint references are not consistent with the shortened history">>,
                      <<LiveOf(as) = LiveOf(arenas), "C13", "fossil collection changed the live blocks">> >> \o Always(P, as))
     /\ div' = div + (IF Line.ret = FossilRef(Line.tgt) THEN 0 ELSE 1)

TEnd == IsEvent("End") /\ UNCHANGED <<cvars, bad, div>>
TCrash ==
  /\ IsEvent("Crash")
  \* a call with valid arguments that never returns: no valid block / state came back (owner by the operation), and C11 (memory safety of the accounting)
  /\ LET w == "the allocator crashed or hung (signal " \o ToString(Line.sig) \o ") during " \o Line.during
         own == IF Line.during \in {"checkpoint", "restore"} THEN "C05" ELSE IF Line.during = "fossil" THEN "C13" ELSE "C12" IN
     bad' = <<[p |-> own, w |-> w, at |-> l], [p |-> "C11", w |-> w, at |-> l]>>
  /\ UNCHANGED <<cvars, div>>

TInit == CInit /\ l = 1 /\ bad = <<>> /\ div = 0 /\ TLCSet(1, 0) /\ TLCSet(2, <<>>) /\ TLCSet(3, 0)
TNext == TCfg \/ TMalloc \/ TFree \/ TWrite \/ TRealloc \/ TTake \/ TRestore \/ TFossil \/ TEnd \/ TCrash
TSpec == TInit /\ [][TNext]_tvars
Progress == TLCSet(1, IF l > TLCGet(1) THEN l ELSE TLCGet(1)) /\ (bad # <<>> => TLCSet(2, bad)) /\ TLCSet(3, div)
Post == PrintT(<<"RESULT", TLCGet(1) - 1, Len(TraceLog), TLCGet(2)>>) /\ PrintT(<<"DIVERGENCES", TLCGet(3)>>)
=============================================================================
