--------------------------- MODULE TimeWarpMC_m3 ---------------------------
(* micro-model 3: three LPs on three threads.  LP0 runs ahead: its work event E (t=4) sends e2 (t=5, low type) to LP1, which processes
   it.  LP2's kick (t=2) sends a switch event k (t=3) to LP0 - a straggler: LP0 rolls E back and cancels e2 IN PLACE (fetch_add on the
   flag word, then re-insertion of the buffer) - and an event s (t=5, higher type: it sorts before e2) to LP1.  Depending on the
   interleaving s reaches LP1 before e2 is processed, after it (straggler), after the cancellation flag was set but before the
   anti-message copy is re-inserted (match_straggler_msg stops at the cancelled entry; the anti-message then rolls back further and s is
   matched again), or after everything.  In the sequential execution LP1 only ever sees s. *)
EXTENDS TimeWarpMC
M3_Owner == (0 :> 0) @@ (1 :> 1) @@ (2 :> 2)
M3_Init == << [src |-> 0, lp |-> 0, t |-> 4, ty |-> 2, pid |-> 0], [src |-> 2, lp |-> 2, t |-> 2, ty |-> 4, pid |-> 0] >>
Snd(off, d, ty) == [off |-> off, delay |-> d, ty |-> ty, pid |-> 0]
\* types: 1 = absorb (low), 2 = work (state 0: send an absorb-low event to the next LP), 3 = absorb (high), 4 = kick, 5 = switch (state := 1)
M3_Trans == << << [ns |-> 0, sends |-> <<>>], [ns |-> 0, sends |-> <<Snd(1, 1, 1)>>], [ns |-> 0, sends |-> <<>>],
                  [ns |-> 0, sends |-> <<Snd(1, 1, 5), Snd(2, 3, 3)>>], [ns |-> 1, sends |-> <<>>] >>,
               << [ns |-> 1, sends |-> <<>>], [ns |-> 1, sends |-> <<>>], [ns |-> 1, sends |-> <<>>],
                  [ns |-> 1, sends |-> <<>>], [ns |-> 1, sends |-> <<>>] >> >>
\* reachability probe (expected to be violated): an event is about to be executed right after a history entry of its own timestamp that the
\* sender cancelled in place (msg_is_before compares the flags first, so it is not treated as a straggler)
Probe_NoExecOverCancelledEntry ==
  \A r \in ThreadsC : pc[r] = "exec" =>
     LET p == loc[r].lp IN ~(hist[p] # <<>> /\ LastE(p).k = "e" /\ TW!HasAnti(msg[LastE(p).m].flags) /\ LastE(p).t = msg[loc[r].m].t
                            /\ Before(EvOf(loc[r].m), [t |-> LastE(p).t, ty |-> LastE(p).ty, pid |-> LastE(p).pid]))
=============================================================================
