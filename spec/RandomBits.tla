----------------------------- MODULE RandomBits -----------------------------
(***************************************************************************)
(* Random() of src/lib/random/random.c on the bit level, parametric in the *)
(* word width W, the mantissa width M and the exponent bias: the raw       *)
(* generator output u (a sequence of W bits, most significant first) is    *)
(* turned into a floating-point number in [0,1) by dropping the leading    *)
(* zeros and the leading one (shift by lzs = clz + 1), keeping the top M   *)
(* bits as mantissa and storing Bias - lzs as exponent.  Property C18      *)
(* (bit-level part) and the shift-amount part of C11.                      *)
(***************************************************************************)
EXTENDS Naturals, Integers, Sequences

Clz(u) == IF \E i \in 1..Len(u) : u[i] = 1 THEN (CHOOSE i \in 1..Len(u) : u[i] = 1 /\ \A j \in 1..(i - 1) : u[j] = 0) - 1 ELSE Len(u)
IsZero(u) == \A i \in 1..Len(u) : u[i] = 0
Lzs(u) == Clz(u) + 1
\* the shift the C code performs is defined only for amounts smaller than the word width
ShiftDefined(u) == IsZero(u) \/ Lzs(u) < Len(u)
\* (u << lzs) >> (W - M): the M bits following the leading one, zero filled
Mantissa(u, M) == [k \in 1..M |-> IF Lzs(u) + k <= Len(u) THEN u[Lzs(u) + k] ELSE 0]
Exponent(u, Bias) == Bias - Lzs(u)
\* value = 0 for u = 0, else 2^(-lzs) * 1.mantissa: always in [0, 1) because lzs >= 1
InUnitInterval(u, Bias) == IsZero(u) \/ (Exponent(u, Bias) < Bias /\ Exponent(u, Bias) >= Bias - Len(u))
=============================================================================
