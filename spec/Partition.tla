------------------------------ MODULE Partition ------------------------------
(***************************************************************************)
(* LP -> rank -> thread partitioning (src/lp/lp.h lid_to_nid, lid_to_rid;  *)
(* src/lp/lp.c partition_start, lp_global_init, lp_init).  Property C14.   *)
(* L = total LPs, N = ranks, T = threads requested per rank.               *)
(***************************************************************************)
EXTENDS Naturals, Integers, Sequences, FiniteSets

\* lid_to_nid: routing of an LP to a rank (integer arithmetic of the C macro)
NidOf(lp, L, N) == (lp * N) \div L

\* LPs hosted by rank k (ownership derived from the routing function itself)
NodeLps(k, L, N) == {lp \in 0..(L - 1) : NidOf(lp, L, N) = k}
\* partition_start(k): the least LP id routed to a rank >= k (L if there is none)
NodeFirst(k, L, N) == IF \E lp \in 0..(L - 1) : NidOf(lp, L, N) >= k
                      THEN CHOOSE g \in 0..(L - 1) : NidOf(g, L, N) >= k /\ \A h \in 0..(g - 1) : NidOf(h, L, N) < k
                      ELSE L
NodeCount(k, L, N) == NodeFirst(k + 1, L, N) - NodeFirst(k, L, N)

\* lp_global_init clamps the thread count to the number of hosted LPs
Clamp(T, cnt) == IF cnt < T THEN cnt ELSE T

\* lid_to_rid on rank k
RidOf(lp, first, cnt, T) == ((lp - first) * T) \div cnt
ThreadFirst(r, first, cnt, T) ==
  IF \E lp \in first..(first + cnt - 1) : RidOf(lp, first, cnt, T) >= r
  THEN CHOOSE g \in first..(first + cnt - 1) : RidOf(g, first, cnt, T) >= r /\ \A h \in first..(g - 1) : RidOf(h, first, cnt, T) < r
  ELSE first + cnt

(***************************************************************************)
(* C14 for one (L, N, T): every LP has exactly one owner (rank, thread),   *)
(* ranges are contiguous and cover all ids, routing agrees with ownership, *)
(* and no thread of a rank is idle when the rank hosts at least as many    *)
(* LPs as it has threads.                                                  *)
(***************************************************************************)
NodesOk(L, N) ==
  /\ \A lp \in 0..(L - 1) : NidOf(lp, L, N) \in 0..(N - 1)
  /\ NodeFirst(0, L, N) = 0 /\ NodeFirst(N, L, N) = L
  /\ \A k \in 0..(N - 1) :
       /\ NodeLps(k, L, N) = NodeFirst(k, L, N)..(NodeFirst(k + 1, L, N) - 1)     \* contiguous, routing = ownership
ThreadsOk(L, N, T) ==
  \A k \in 0..(N - 1) :
    LET first == NodeFirst(k, L, N)
        cnt == NodeCount(k, L, N)
        t == Clamp(T, cnt) IN
      cnt > 0 =>
        /\ ThreadFirst(0, first, cnt, t) = first /\ ThreadFirst(t, first, cnt, t) = first + cnt
        /\ \A r \in 0..(t - 1) :
             /\ ThreadFirst(r, first, cnt, t) < ThreadFirst(r + 1, first, cnt, t)   \* no idle thread
             /\ \A lp \in ThreadFirst(r, first, cnt, t)..(ThreadFirst(r + 1, first, cnt, t) - 1) :
                  RidOf(lp, first, cnt, t) = r                                      \* routing = ownership
C14(L, N, T) == NodesOk(L, N) /\ ThreadsOk(L, N, T)
AllTriples(maxL, maxN, maxT) == \A L \in 1..maxL, N \in 1..maxN, T \in 1..maxT : C14(L, N, T)
=============================================================================
