------------------------------ MODULE Barrier ------------------------------
(***************************************************************************)
(* sync_thread_barrier (src/core/sync.c): a two-counter, four-phase        *)
(* sense-reversing barrier.  Each thread keeps a private phase 0..3;       *)
(* phases 0,1 count cs[0],cs[1] up to N, phases 2,3 count them down to 0.  *)
(* One step per shared access: the fetch_add (Arrive) and a successful     *)
(* load of the spin loop (Leave); failed loads are stuttering.  C17.       *)
(***************************************************************************)
EXTENDS Naturals, Integers, FiniteSets

CONSTANT N
Thr == 0..(N - 1)

VARIABLES
  phase,   \* phase[t] in 0..3 (static __thread unsigned phase)
  cs,      \* cs[0], cs[1]
  pc,      \* "out" | "spin"
  ldr,     \* ldr[t]: value to be returned by the call in progress
  \* ghost, kept finite: per phase the arrivals/returns/leaders of the use in progress
  arrived, left, leaders

vars == <<phase, cs, pc, ldr, arrived, left, leaders>>

Init ==
  /\ phase = [t \in Thr |-> 0] /\ cs = [i \in 0..1 |-> 0]
  /\ pc = [t \in Thr |-> "out"] /\ ldr = [t \in Thr |-> FALSE]
  /\ arrived = [p \in 0..3 |-> {}] /\ left = [p \in 0..3 |-> {}] /\ leaders = [p \in 0..3 |-> 0]

Ctr(t) == phase[t] % 2
Down(t) == phase[t] >= 2

\* atomic_fetch_add on the counter of the current phase
Arrive(t) ==
  /\ pc[t] = "out"
  /\ LET c == Ctr(t) IN
       /\ cs' = [cs EXCEPT ![c] = IF Down(t) THEN @ - 1 ELSE @ + 1]
       /\ ldr' = [ldr EXCEPT ![t] = IF Down(t) THEN cs[c] = 1 ELSE cs[c] = 0]
  /\ pc' = [pc EXCEPT ![t] = "spin"]
  /\ arrived' = [arrived EXCEPT ![phase[t]] = @ \cup {t}]
  /\ UNCHANGED <<phase, left, leaders>>

\* the spin loop observes its exit condition; the call returns ldr[t]
Leave(t) ==
  /\ pc[t] = "spin"
  /\ cs[Ctr(t)] = (IF Down(t) THEN 0 ELSE N)
  /\ pc' = [pc EXCEPT ![t] = "out"]
  /\ phase' = [phase EXCEPT ![t] = (@ + 1) % 4]
  /\ LET p == phase[t]
         all == left[p] \cup {t} = Thr IN
       /\ left' = [left EXCEPT ![p] = IF all THEN {} ELSE @ \cup {t}]
       /\ leaders' = [leaders EXCEPT ![p] = IF all THEN 0 ELSE @ + (IF ldr[t] THEN 1 ELSE 0)]
       /\ arrived' = [arrived EXCEPT ![p] = IF all THEN {} ELSE @]
  /\ UNCHANGED <<cs, ldr>>

Next == \E t \in Thr : Arrive(t) \/ Leave(t)
Spec == Init /\ [][Next]_vars
FairSpec == Spec /\ \A t \in Thr : WF_vars(Arrive(t)) /\ WF_vars(Leave(t))

(***************************************************************************)
(* C17                                                                     *)
(***************************************************************************)
\* nobody returns from a use before every thread has entered that use
NoEarlyPass == [][\A t \in Thr : Leave(t) => arrived[phase[t]] = Thr]_vars
\* when the last thread returns from a use, exactly one thread was told it is the leader
ExactlyOneLeader ==
  [][\A t \in Thr : (Leave(t) /\ left[phase[t]] \cup {t} = Thr) => leaders[phase[t]] + (IF ldr[t] THEN 1 ELSE 0) = 1]_vars
AtMostOneLeader == \A p \in 0..3 : leaders[p] <= 1
\* threads are never more than one use apart (so the two counters never mix uses)
Lockstep == \A t, u \in Thr : phase[u] \in {phase[t], (phase[t] + 1) % 4, (phase[t] + 3) % 4}
CountersInRange == \A i \in 0..1 : cs[i] >= 0 /\ cs[i] <= N
\* reusable immediately and indefinitely: every thread returns infinitely often
Reusable == \A t \in Thr : []<>(pc[t] = "out" /\ phase[t] = 0) /\ []<>(pc[t] = "out" /\ phase[t] = 2)
=============================================================================
