SPECIFICATION Spec
CONSTANTS ThreadsC = {0, 1, 8}  NLpC = 3  OwnerOf <- D2_Owner  InitEv <- D2_Init  Trans <- D2_Trans  MaxMsg = 16  CkptEvery = 1  MaxGvt = 0  RecordSched = FALSE
INVARIANT NoCheckFails
INVARIANT PoolSufficient
INVARIANT C01_FinalEqualsSequential
INVARIANT C06_NothingLeft
INVARIANT C02_RemoteExactlyOnce
CHECK_DEADLOCK FALSE
