------------------------------- MODULE SeqSim -------------------------------
(***************************************************************************)
(* Reference sequential semantics of a discrete-event simulation (the      *)
(* "textbook event-list executor" of property C10, and the oracle for      *)
(* C01/C03/C09): LP_INIT for every LP in id order, then repeatedly deliver *)
(* a Before-minimal pending event, then LP_FINI for every LP.              *)
(* src/serial/serial.c is checked against it by SeqSimTrace.               *)
(***************************************************************************)
EXTENDS Model, TLC

VARIABLES
  phase,    \* "init" | "run" | "fini" | "done"
  nextLp,   \* next LP to initialise / finalise
  pend,     \* set of pending events [id, lp, t, ty, pid]
  nid,      \* next event id (events with equal content are distinct elements)
  st,       \* st[lp] = [s, cnt]
  held,     \* held[lp]: the termination predicate has held after some event of lp
  hist,     \* hist[lp]: sequence of delivered events [t, ty, pid, s, cnt]
  now       \* timestamp of the last delivered event

svars == <<phase, nextLp, pend, nid, st, held, hist, now>>

TermTime == IF "termtime" \in DOMAIN M THEN M.termtime ELSE 1073741824

AddSends(p, n, sends) ==
  p \cup {[id |-> n + i - 1, lp |-> sends[i].lp, t |-> sends[i].t, ty |-> sends[i].ty, pid |-> sends[i].pid]
            : i \in 1..Len(sends)}

Minimal(e) == \A f \in pend : ~EvBefore(f, e)

SInit ==
  /\ phase = "init" /\ nextLp = 0 /\ pend = {} /\ nid = 1
  /\ st = [l \in LPs |-> InitSt]
  /\ held = [l \in LPs |-> FALSE]
  /\ hist = [l \in LPs |-> <<>>]
  /\ now = 0

\* LP_INIT is delivered at time 0 to LP nextLp (serial.c:36-56)
InitLp ==
  /\ phase = "init" /\ nextLp < NLps
  /\ pend' = AddSends(pend, nid, InitSends(nextLp))
  /\ nid' = nid + Len(InitSends(nextLp))
  /\ nextLp' = nextLp + 1
  /\ phase' = IF nextLp + 1 = NLps THEN "run" ELSE "init"
  /\ UNCHANGED <<st, held, hist, now>>

\* deliver one Before-minimal event e with library draw u16 (serial.c:90-113)
Dispatch(e, u16) ==
  /\ phase = "run" /\ e \in pend /\ Minimal(e)
  /\ LET me == e.lp
         ns == Handle(me, st[me], e.ty, e.pid, u16)
         sends == Sends(me, st[me], e.t, e.ty, e.pid, u16) IN
     /\ st' = [st EXCEPT ![me] = ns]
     /\ pend' = AddSends(pend \ {e}, nid, sends)
     /\ nid' = nid + Len(sends)
     /\ held' = [held EXCEPT ![me] = @ \/ Pred(me, ns)]
     /\ hist' = [hist EXCEPT ![me] = Append(@, [t |-> e.t, ty |-> e.ty, pid |-> e.pid, s |-> ns.s, cnt |-> ns.cnt])]
     /\ now' = e.t
  /\ UNCHANGED <<phase, nextLp>>

\* the run may stop when every predicate has held, when nothing is pending, or at an event at or
\* after the termination time (serial.c tests the latter only on wall-clock ticks: "may", not "must")
MayStop(allowPred) ==
  \/ pend = {}
  \/ allowPred /\ \A l \in LPs : held[l]
  \/ now >= TermTime
MustStop(allowPred) == pend = {} \/ (allowPred /\ \A l \in LPs : held[l])

Stop(allowPred) ==
  /\ phase = "run" /\ MayStop(allowPred)
  /\ phase' = "fini" /\ nextLp' = 0
  /\ UNCHANGED <<pend, nid, st, held, hist, now>>

FiniLp ==
  /\ phase = "fini" /\ nextLp < NLps
  /\ nextLp' = nextLp + 1
  /\ phase' = IF nextLp + 1 = NLps THEN "done" ELSE "fini"
  /\ UNCHANGED <<pend, nid, st, held, hist, now>>

\* library draws are an input of the semantics: any 16-bit value (model checking uses a few)
Draws == {0, 21845, 43690, 65535}
SNext ==
  \/ InitLp
  \/ \E e \in pend : \E u \in Draws : Dispatch(e, IF UsesDraw(st[e.lp].s, e.ty) THEN u ELSE 0)
  \/ (MustStop(TRUE) /\ Stop(TRUE))
  \/ FiniLp
SSpec == SInit /\ [][SNext]_svars

(***************************************************************************)
(* Properties of the reference semantics itself                            *)
(***************************************************************************)
\* delivery is in non-decreasing timestamp order
TimeMonotone == \A l \in LPs : \A i \in 1..(Len(hist[l]) - 1) : hist[l][i].t <= hist[l][i + 1].t
NoPastSend == \A e \in pend : e.t >= now
=============================================================================
