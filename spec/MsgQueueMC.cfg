SPECIFICATION Spec
CONSTANTS Producers = {1,2} Msgs = {1,2,3,4,5} Owner <- MCOwner Time <- MCTime Inf = 1000
INVARIANT NoLossNoDup
INVARIANT ListSane
PROPERTY PeekLowerBound
PROPERTY ExtractMinimal
CHECK_DEADLOCK FALSE
