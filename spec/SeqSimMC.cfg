SPECIFICATION MCSpec
INVARIANT Unique
INVARIANT TimeMonotone
INVARIANT NoPastSend
INVARIANT ModelOk
CHECK_DEADLOCK FALSE
