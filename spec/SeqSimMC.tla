------------------------------ MODULE SeqSimMC ------------------------------
(***************************************************************************)
(* The reference semantics itself, explored exhaustively on a tiny model   *)
(* with many timestamp ties (env MODEL = spec/models/tiny.json): whichever *)
(* of the incomparable (equal-content) or Before-minimal events is taken,  *)
(* every LP ends with the same delivery history, delivery is in time order *)
(* and nothing is scheduled in the past.  Supports C10 / C16: the content  *)
(* based tie-break makes the sequential result unique.                     *)
(***************************************************************************)
EXTENDS SeqSim

\* deterministic reference run: always take the Before-minimal event with the smallest id
RECURSIVE Canon(_, _, _, _)
Canon(p, n, s, h) ==
  IF p = {} THEN h
  ELSE LET e == CHOOSE x \in p : (\A y \in p : ~EvBefore(y, x)) /\ (\A y \in p : (~EvBefore(x, y) /\ ~EvBefore(y, x)) => x.id <= y.id)
           ns == Handle(e.lp, s[e.lp], e.ty, e.pid, 0)
           sends == Sends(e.lp, s[e.lp], e.t, e.ty, e.pid, 0)
           new == {[id |-> n + i - 1, lp |-> sends[i].lp, t |-> sends[i].t, ty |-> sends[i].ty, pid |-> sends[i].pid] : i \in 1..Len(sends)} IN
       Canon((p \ {e}) \cup new, n + Len(sends), [s EXCEPT ![e.lp] = ns],
             [h EXCEPT ![e.lp] = Append(@, [t |-> e.t, ty |-> e.ty, pid |-> e.pid, s |-> ns.s, cnt |-> ns.cnt])])
RECURSIVE InitPend(_, _, _)
InitPend(l, p, n) == IF l = NLps THEN <<p, n>>
                     ELSE InitPend(l + 1, p \cup {[id |-> n + i - 1, lp |-> InitSends(l)[i].lp, t |-> InitSends(l)[i].t, ty |-> InitSends(l)[i].ty,
                                                    pid |-> InitSends(l)[i].pid] : i \in 1..Len(InitSends(l))}, n + Len(InitSends(l)))
CanonHist == LET ip == InitPend(0, {}, 1) IN Canon(ip[1], ip[2], [l \in LPs |-> InitSt], [l \in LPs |-> <<>>])
Unique == phase = "done" => hist = CanonHist
ModelOk == ValidModel
MCNext ==
  \/ InitLp
  \/ \E e \in pend : Dispatch(e, 0)
  \/ (pend = {} /\ Stop(FALSE))
  \/ FiniLp
MCSpec == SInit /\ [][MCNext]_svars
=============================================================================
