SPECIFICATION FairSpec
CONSTANT N = 2
INVARIANT AtMostOneLeader
INVARIANT Lockstep
INVARIANT CountersInRange
PROPERTY NoEarlyPass
PROPERTY ExactlyOneLeader
PROPERTY Reusable
