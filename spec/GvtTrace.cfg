SPECIFICATION Spec
CONSTRAINT Progress
POSTCONDITION Post
CHECK_DEADLOCK FALSE
