SPECIFICATION Spec
CONSTANTS ThreadsC = {0, 1}  NLpC = 2  OwnerOf <- M4_Owner  InitEv <- M4_Init  Trans <- M4_Trans  MaxMsg = 16  CkptEvery = 1  MaxGvt = 2  RecordSched = FALSE
INVARIANT NoCheckFails
INVARIANT PoolSufficient
INVARIANT C01_FinalEqualsSequential
INVARIANT C06_NothingLeft
CHECK_DEADLOCK FALSE
