------------------------------ MODULE Topology ------------------------------
(***************************************************************************)
(* The topology library (src/lib/topology/topology.c): mathematical        *)
(* neighbour relation of the grid/ring/star/mesh geometries.  Property C19.*)
(* Geometries: 1 hexagon, 2 square, 3 torus, 4 ring, 5 bidring, 6 star,    *)
(* 7 full mesh, 8 graph.  Directions: 0 E, 1 W, 2 N, 3 S, 4 NE, 5 SW,      *)
(* 6 NW, 7 SE.  Regions are numbered row by row: id = y * width + x.       *)
(***************************************************************************)
EXTENDS Naturals, Integers, Sequences, FiniteSets

Invalid == -1
E == 0
W == 1
No == 2
So == 3
NE == 4
SW == 5
NW == 6
SE == 7
FixedDirs(g) == CASE g = 1 -> {E, W, NE, NW, SE, SW}
                  [] g = 2 -> {E, W, No, So}
                  [] g = 3 -> {E, W, No, So}
                  [] g = 4 -> {E}
                  [] g = 5 -> {E, W}
                  [] OTHER -> {}

XY(x, y, w, h) == IF x >= 0 /\ x < w /\ y >= 0 /\ y < h THEN y * w + x ELSE Invalid

\* receiver of a fixed direction d from region `from' (Invalid when there is none)
Mod(a, b) == a % b
Hex(x, y, odd, w, h, d) ==
  IF d = E THEN XY(x + 1, y, w, h) ELSE IF d = W THEN XY(x - 1, y, w, h)
  ELSE IF d = NW THEN XY(x + odd - 1, y - 1, w, h) ELSE IF d = NE THEN XY(x + odd, y - 1, w, h)
  ELSE IF d = SW THEN XY(x + odd - 1, y + 1, w, h) ELSE IF d = SE THEN XY(x + odd, y + 1, w, h)
  ELSE Invalid
Sq(x, y, w, h, d) ==
  IF d = E THEN XY(x + 1, y, w, h) ELSE IF d = W THEN XY(x - 1, y, w, h)
  ELSE IF d = No THEN XY(x, y - 1, w, h) ELSE IF d = So THEN XY(x, y + 1, w, h) ELSE Invalid
Tor(x, y, w, h, d) ==
  IF d = E THEN y * w + Mod(x + 1, w) ELSE IF d = W THEN y * w + Mod(x + w - 1, w)
  ELSE IF d = No THEN Mod(y + h - 1, h) * w + x ELSE IF d = So THEN Mod(y + 1, h) * w + x ELSE Invalid
Recv(g, w, h, n, from, d) ==
  LET y == IF w > 0 THEN from \div w ELSE 0
      x == IF w > 0 THEN from - y * w ELSE 0
      odd == Mod(y, 2) IN
  IF g = 1 THEN Hex(x, y, odd, w, h, d)
  ELSE IF g = 2 THEN Sq(x, y, w, h, d)
  ELSE IF g = 3 THEN Tor(x, y, w, h, d)
  ELSE IF g = 4 THEN (IF d = E THEN Mod(from + 1, n) ELSE Invalid)
  ELSE IF g = 5 THEN (IF d = E THEN Mod(from + 1, n) ELSE IF d = W THEN Mod(from + n - 1, n) ELSE Invalid)
  ELSE Invalid

\* the neighbour relation
Neighbors(g, w, h, n, from) ==
  CASE g \in 1..5 -> {Recv(g, w, h, n, from, d) : d \in FixedDirs(g)} \ {Invalid}
    [] g = 6 -> IF from = 0 THEN 1..(n - 1) ELSE {0}
    [] g = 7 -> (0..(n - 1)) \ {from}
    [] OTHER -> {}

\* CountDirections: number of fixed directions with a valid receiver (grids, rings), number of other
\* regions (star centre, full mesh), one (star leaf)
Count(g, w, h, n, from) ==
  CASE g \in 1..5 -> Cardinality({d \in FixedDirs(g) : Recv(g, w, h, n, from, d) # Invalid})
    [] g = 6 -> IF from = 0 THEN n - 1 ELSE 1
    [] g = 7 -> n - 1
    [] OTHER -> 0
=============================================================================
