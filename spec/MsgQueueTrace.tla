--------------------------- MODULE MsgQueueTrace ---------------------------
(***************************************************************************)
(* Binds MsgQueue to the real msg_queue.c: harness/mqdrv.c runs P producer *)
(* threads and the owning consumer under the cooperative scheduler         *)
(* (switches between the load and the CAS, after the CAS, after the        *)
(* exchange).  Push/Drain come from the hooks inside msg_queue.c, Extract, *)
(* PeekBegin and Peek from the driver around the real calls.               *)
(* Verdict (C15): nothing lost or duplicated; extraction is a minimum of   *)
(* what was transferred; a peek is a lower bound of everything inserted    *)
(* before it began and not yet extracted.                                  *)
(***************************************************************************)
EXTENDS Naturals, Integers, Sequences, FiniteSets, TLC, Json, IOUtils

TraceLog == ndJsonDeserialize(IOEnv.TRACE)
InfC == 1073741824
VARIABLES l, bad, inbox, heap, tm, extracted, pre, peeking
tvars == <<l, bad, inbox, heap, tm, extracted, pre, peeking>>
Line == TraceLog[l]
IsEvent(e) == l <= Len(TraceLog) /\ bad = <<>> /\ Line.e = e /\ l' = l + 1
Rep(cs) == LET f == SelectSeq(cs, LAMBDA c : ~c[1]) IN [i \in 1..Len(f) |-> [p |-> "C15", w |-> f[i][2], at |-> l]]
Put(f, k, v) == [x \in (DOMAIN f) \cup {k} |-> IF x = k THEN v ELSE f[x]]
MinT(S) == IF S = {} THEN InfC ELSE CHOOSE t \in {tm[m] : m \in S} : \A u \in {tm[m] : m \in S} : t <= u

TInit == l = 2 /\ bad = <<>> /\ inbox = {} /\ heap = {} /\ tm = <<>> /\ extracted = {} /\ pre = {} /\ peeking = FALSE
         /\ TLCSet(1, 0) /\ TLCSet(2, <<>>)

TPush ==
  /\ IsEvent("Push")
  /\ inbox' = inbox \cup {Line.m} /\ tm' = Put(tm, Line.m, Line.t)
  /\ bad' = Rep(<< <<Line.m \notin inbox \cup heap \cup extracted, "a message was inserted twice">> >>)
  /\ UNCHANGED <<heap, extracted, pre, peeking>>
TDrain ==
  /\ IsEvent("Drain")
  /\ heap' = heap \cup inbox /\ inbox' = {}
  /\ bad' = Rep(<< <<Line.k = Cardinality(inbox), "the buffer swap transferred a different number of events than were inserted (lost or duplicated)">>,
                   <<{Line.ms[i] : i \in 1..Len(Line.ms)} = inbox, "the buffer swap transferred different events than were inserted">> >>)
  /\ UNCHANGED <<tm, extracted, pre, peeking>>
TExtract ==
  /\ IsEvent("Extract")
  /\ IF Line.m = 0
     THEN /\ bad' = Rep(<< <<heap = {}, "extraction returned nothing although events had been transferred to the thread">> >>)
          /\ UNCHANGED <<inbox, heap, tm, extracted, pre, peeking>>
     ELSE /\ heap' = heap \ {Line.m} /\ extracted' = extracted \cup {Line.m}
          /\ bad' = Rep(<< <<Line.m \in heap, "extracted an event that was not transferred to the thread (or twice)">>,
                           <<Line.m \in heap => tm[Line.m] = MinT(heap), "extraction is not a minimum-time element of the transferred events">>,
                           <<Line.m \in DOMAIN tm => Line.t = tm[Line.m], "extracted event carries a different timestamp">> >>)
          /\ UNCHANGED <<inbox, tm, pre, peeking>>
TPeekBegin ==
  /\ IsEvent("PeekBegin")
  /\ pre' = inbox \cup heap /\ peeking' = TRUE /\ bad' = <<>>
  /\ UNCHANGED <<inbox, heap, tm, extracted>>
TPeek ==
  /\ IsEvent("Peek")
  /\ peeking' = FALSE
  /\ bad' = Rep(<< <<\A m \in pre \ extracted : Line.t <= tm[m], "the minimum-time query is larger than an event inserted before the query began">>,
                   <<Line.t = MinT(heap), "the minimum-time query differs from the minimum of the transferred events">> >>)
  /\ UNCHANGED <<inbox, heap, tm, extracted, pre>>
TEnd ==
  /\ IsEvent("End")
  /\ bad' = Rep(<< <<inbox = {} /\ heap = {} /\ Cardinality(extracted) = Line.total, "not every inserted event was extracted exactly once">> >>)
  /\ UNCHANGED <<inbox, heap, tm, extracted, pre, peeking>>
THang ==
  /\ IsEvent("Hang")
  /\ bad' = <<[p |-> "C15", w |-> "queue operations do not terminate", at |-> l]>>
  /\ UNCHANGED <<inbox, heap, tm, extracted, pre, peeking>>
TNext == TPush \/ TDrain \/ TExtract \/ TPeekBegin \/ TPeek \/ TEnd \/ THang
TSpec == TInit /\ [][TNext]_tvars
Progress == TLCSet(1, IF l > TLCGet(1) THEN l ELSE TLCGet(1)) /\ (bad # <<>> => TLCSet(2, bad))
Post == PrintT(<<"RESULT", TLCGet(1) - 1, Len(TraceLog), TLCGet(2)>>)
=============================================================================
