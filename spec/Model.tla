------------------------------- MODULE Model -------------------------------
(***************************************************************************)
(* The table-driven model family ("for all programs").  The tables are     *)
(* read from the JSON file named by the environment variable MODEL; the    *)
(* C interpreter of the harness (harness/twh.c) reads the same tables.     *)
(* LPs are 0..NLps-1, abstract states 0..K-1, event types 1..T, payload    *)
(* ids 0..P-1 (-1 = none).                                                 *)
(***************************************************************************)
EXTENDS Naturals, Integers, Sequences, Json, IOUtils, Order

M == JsonDeserialize(IOEnv.MODEL)

NLps == M.nlps
LPs == 0..(NLps - 1)
LpInitType == 65534

PSize(pid) == IF pid < 0 THEN 0 ELSE M.payloads[pid + 1].size
PBytes(pid) == IF pid < 0 THEN <<>> ELSE M.payloads[pid + 1].bytes
PAdd(pid) == IF pid < 0 THEN 0 ELSE M.payloads[pid + 1].padd

\* the order-relevant content of an event record [lp, t, ty, pid]
Ev(e) == [t |-> e.t, anti |-> 0, ty |-> e.ty, sz |-> PSize(e.pid), pl |-> PBytes(e.pid)]
EvBefore(e, f) == Before(Ev(e), Ev(f))

Tr(s, ty) == M.trans[s + 1][ty]
DrawIdx(s, ty, u16) == IF Tr(s, ty).draw > 0 THEN (u16 * Tr(s, ty).draw) \div 65536 ELSE 0
Outcome(s, ty, u16) == Tr(s, ty).out[DrawIdx(s, ty, u16) + 1]

\* the destination rule may differ for the LPs below / from M.split (chains hopping between two halves)
\* a send with type 0 / payload -1 forwards the type / payload of the event being processed unchanged
MkSend(me, now, sd, cty, cpid) ==
  [lp |-> (me + (IF me < M.split THEN sd.drule ELSE sd.drule2)) % NLps, t |-> now + sd.delay,
   ty |-> IF sd.ty = 0 THEN cty ELSE sd.ty, pid |-> IF sd.pid < 0 THEN cpid ELSE sd.pid]

\* handler semantics: state [s, cnt] of LP me receives event (now, ty, pid), library draw u16
NextS(s, ty, pid, u16) == (Outcome(s, ty, u16).ns + PAdd(pid)) % M.K
Sends(me, st, now, ty, pid, u16) ==
  IF st.cnt < M.cap[me + 1]
  THEN [i \in 1..Len(Outcome(st.s, ty, u16).sends) |-> MkSend(me, now, Outcome(st.s, ty, u16).sends[i], ty, pid)]
  ELSE <<>>
Handle(me, st, ty, pid, u16) == [s |-> NextS(st.s, ty, pid, u16), cnt |-> st.cnt + 1]
InitSends(me) == [i \in 1..Len(M.init[me + 1]) |-> MkSend(me, 0, M.init[me + 1][i], 1, 0)]
InitSt == [s |-> 0, cnt |-> 0]
UsesDraw(s, ty) == Tr(s, ty).draw > 0

Pred(me, st) == st.cnt >= M.need[me + 1] /\ M.endmask[st.s + 1] = 1

\* API contract: a zero-delay send never sorts before the event that schedules it
ValidModel ==
  \A s \in 0..(M.K - 1), ty \in 1..M.T :
    \A d \in 1..Len(Tr(s, ty).out) : \A i \in 1..Len(Tr(s, ty).out[d].sends) :
      LET sd == Tr(s, ty).out[d].sends[i] IN sd.delay > 0 \/ (sd.ty # 0 /\ sd.ty < ty) \/ (sd.ty = 0 /\ sd.pid < 0)
=============================================================================
