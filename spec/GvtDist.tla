------------------------------ MODULE GvtDist ------------------------------
(***************************************************************************)
(* The distributed part of the GVT algorithm of src/gvt/gvt.c + gvt.h +    *)
(* distributed/mpi.c (ORCHESTRA): K ranks with one worker each (the        *)
(* shared-memory part, several workers per rank, is GvtRound.tla).         *)
(*                                                                         *)
(* A round: rank 0 broadcasts GVT_START (control messages travel through   *)
(* the network like everything else); every rank runs a first local        *)
(* reduction, flips its colour (gvt_phase), publishes how many messages of *)
(* the OLD colour it sent to every rank (reduce-scatter of sums), waits    *)
(* until it has received as many old-coloured messages as were sent to it, *)
(* runs the second local reduction (accumulator since the start of the     *)
(* round + queue peek), and the ranks agree on the minimum (all-reduce).   *)
(* GVT_DONE messages tell rank 0 that a new round may start.               *)
(*                                                                         *)
(* Remote messages carry the colour of their sender at send time           *)
(* (gvt_remote_msg_send) and are counted per colour on both sides.         *)
(* The workload is abstract, as in GvtRound: a rank extracts a minimum     *)
(* message (lowering its accumulator) and may send messages not below it   *)
(* to itself or to another rank.  Property C04 (and the GVT part of C02).  *)
(***************************************************************************)
EXTENDS Naturals, Integers, FiniteSets, TLC

CONSTANTS K,        \* ranks 0..K-1
          MaxT,     \* timestamps 1..MaxT
          MaxMsgs,  \* total number of messages ever created
          MaxRounds,
          Inf

Rank == 0..(K - 1)
Col == {0, 1}
VARIABLES
  pend, hand,      \* per rank: queued message ids (inbox + heap), id in hand (0: none)
  net,             \* messages in flight: set of [id, dst, col]
  ctl,             \* control messages in flight: set of [kind, dst, n] (n distinguishes the GVT_DONE of different ranks)
  tm, nmsg,        \* id -> timestamp; messages created so far
  acc, tph, nph, redp, col,   \* gvt_accumulator, thread_phase, node_phase, reducing_p, gvt_phase
  seq, last, recv, \* remote_msg_seq[col][dst], last_seq[col][dst], remote_msg_received[col]
  tsent, tmr, torecv,  \* total_sent[dst], total_msg_received, remote_msg_to_receive
  ss, mr,          \* collectives: posted contributions of the current round (<<round, value>>)
  gvtNodes, rounds, rnd,   \* at rank 0: open round counter; rounds started; per rank: round it takes part in
  seen             \* last GVT handed to each rank (0: none)

vars == <<pend, hand, net, ctl, tm, nmsg, acc, tph, nph, redp, col, seq, last, recv, tsent, tmr, torecv, ss, mr, gvtNodes, rounds, rnd, seen>>

Min2(a, b) == IF a < b THEN a ELSE b
MinOf(S) == IF S = {} THEN Inf ELSE CHOOSE x \in S : \A y \in S : x <= y
Peek(n) == MinOf({tm[m] : m \in pend[n]})
RECURSIVE SumOver(_, _)
SumOver(f, S) == IF S = {} THEN 0 ELSE LET x == CHOOSE y \in S : TRUE IN f[x] + SumOver(f, S \ {x})

Init ==
  /\ \E k \in 1..Min2(2, MaxMsgs) :
       /\ nmsg = k
       /\ tm = [m \in 1..k |-> 1]
       /\ pend = [n \in Rank |-> {m \in 1..k : (m - 1) % K = n}]
  /\ hand = [n \in Rank |-> 0] /\ net = {} /\ ctl = {}
  /\ acc = [n \in Rank |-> Inf] /\ tph = [n \in Rank |-> "idle"] /\ nph = [n \in Rank |-> "r1"] /\ redp = [n \in Rank |-> Inf]
  /\ col = [n \in Rank |-> 0]
  /\ seq = [n \in Rank |-> [c \in Col |-> [d \in Rank |-> 0]]] /\ last = seq
  /\ recv = [n \in Rank |-> [c \in Col |-> 0]]
  /\ tsent = [n \in Rank |-> [d \in Rank |-> 0]] /\ tmr = [n \in Rank |-> 0] /\ torecv = [n \in Rank |-> 0]
  /\ ss = [n \in Rank |-> <<0, [d \in Rank |-> 0]>>] /\ mr = [n \in Rank |-> <<0, Inf>>]
  /\ gvtNodes = 0 /\ rounds = 0 /\ rnd = [n \in Rank |-> 0]
  /\ seen = [n \in Rank |-> 0]

(* ---------- workload ---------- *)
Extract(n) ==
  /\ hand[n] = 0 /\ pend[n] # {}
  /\ \E m \in pend[n] :
       /\ tm[m] = Peek(n)
       /\ hand' = [hand EXCEPT ![n] = m]
       /\ pend' = [pend EXCEPT ![n] = @ \ {m}]
       /\ acc' = [acc EXCEPT ![n] = Min2(@, tm[m])]     \* gvt_on_msg_extraction
  /\ UNCHANGED <<net, ctl, tm, nmsg, tph, nph, redp, col, seq, last, recv, tsent, tmr, torecv, ss, mr, gvtNodes, rounds, rnd, seen>>
\* ScheduleNewEvent: local insert, or mpi_remote_msg_send with the sender's colour and a sequence number
Send(n) ==
  /\ hand[n] # 0 /\ nmsg < MaxMsgs
  /\ \E d \in Rank, t \in tm[hand[n]]..MaxT :
       /\ nmsg' = nmsg + 1
       /\ tm' = [m \in 1..(nmsg + 1) |-> IF m = nmsg + 1 THEN t ELSE tm[m]]
       /\ IF d = n
          THEN pend' = [pend EXCEPT ![n] = @ \cup {nmsg + 1}] /\ UNCHANGED <<net, seq>>
          ELSE /\ net' = net \cup {[id |-> nmsg + 1, dst |-> d, col |-> col[n]]}
               /\ seq' = [seq EXCEPT ![n][col[n]][d] = @ + 1]
               /\ UNCHANGED pend
  /\ UNCHANGED <<hand, ctl, acc, tph, nph, redp, col, last, recv, tsent, tmr, torecv, ss, mr, gvtNodes, rounds, rnd, seen>>
Finish(n) ==
  /\ hand[n] # 0
  /\ hand' = [hand EXCEPT ![n] = 0]
  /\ UNCHANGED <<pend, net, ctl, tm, nmsg, acc, tph, nph, redp, col, seq, last, recv, tsent, tmr, torecv, ss, mr, gvtNodes, rounds, rnd, seen>>
\* mpi_remote_msg_handle: gvt_remote_msg_receive counts by the colour of the message, then msg_queue_insert
Recv(n) ==
  /\ hand[n] = 0
  /\ \E x \in net :
       /\ x.dst = n
       /\ net' = net \ {x}
       /\ recv' = [recv EXCEPT ![n][x.col] = @ + 1]
       /\ pend' = [pend EXCEPT ![n] = @ \cup {x.id}]
  /\ UNCHANGED <<hand, ctl, tm, nmsg, acc, tph, nph, redp, col, seq, last, tsent, tmr, torecv, ss, mr, gvtNodes, rounds, rnd, seen>>

(* ---------- control messages ---------- *)
\* rank 0, idle, timer expired, no round open: gvt_nodes += n_nodes, broadcast GVT_START (to itself as well)
Initiate ==
  /\ tph[0] = "idle" /\ hand[0] = 0 /\ gvtNodes = 0 /\ rounds < MaxRounds
  /\ gvtNodes' = K /\ rounds' = rounds + 1
  /\ ctl' = ctl \cup {[kind |-> "start", dst |-> d, n |-> 0] : d \in Rank}
  /\ UNCHANGED <<pend, hand, net, tm, nmsg, acc, tph, nph, redp, col, seq, last, recv, tsent, tmr, torecv, ss, mr, rnd, seen>>
\* control_msg_process(GVT_START): gvt_start_processing
RecvStart(n) ==
  /\ hand[n] = 0
  /\ \E x \in ctl :
       /\ x.kind = "start" /\ x.dst = n
       /\ ctl' = ctl \ {x}
  /\ acc' = [acc EXCEPT ![n] = Inf] /\ tph' = [tph EXCEPT ![n] = "A"]
  /\ rnd' = [rnd EXCEPT ![n] = @ + 1]
  /\ UNCHANGED <<pend, hand, net, tm, nmsg, nph, redp, col, seq, last, recv, tsent, tmr, torecv, ss, mr, gvtNodes, rounds, seen>>
RecvDone ==
  /\ hand[0] = 0
  /\ \E x \in ctl :
       /\ x.kind = "done" /\ x.dst = 0
       /\ ctl' = ctl \ {x}
  /\ gvtNodes' = gvtNodes - 1
  /\ UNCHANGED <<pend, hand, net, tm, nmsg, acc, tph, nph, redp, col, seq, last, recv, tsent, tmr, torecv, ss, mr, rounds, rnd, seen>>

(* ---------- gvt_thread_phase_run with one worker per rank: the two peeks ---------- *)
InReduction(n) == nph[n] \in {"r1", "r2"} /\ hand[n] = 0
PhaseA(n) ==   \* A -> B (-> C): first peek
  /\ InReduction(n) /\ tph[n] = "A"
  /\ acc' = [acc EXCEPT ![n] = Min2(@, Peek(n))]
  /\ tph' = [tph EXCEPT ![n] = "C"]
  /\ UNCHANGED <<pend, hand, net, ctl, tm, nmsg, nph, redp, col, seq, last, recv, tsent, tmr, torecv, ss, mr, gvtNodes, rounds, rnd, seen>>
\* C -> D -> idle: second peek; the thread reduction is complete: gvt_phase ^= !node_phase, thread_phase = A, ++node_phase
PhaseC(n) ==
  /\ InReduction(n) /\ tph[n] = "C"
  /\ redp' = [redp EXCEPT ![n] = Min2(acc[n], Peek(n))]
  /\ tph' = [tph EXCEPT ![n] = "A"]
  /\ col' = [col EXCEPT ![n] = IF nph[n] = "r1" THEN 1 - @ ELSE @]
  /\ nph' = [nph EXCEPT ![n] = IF @ = "r1" THEN "sr" ELSE "mr"]
  /\ UNCHANGED <<pend, hand, net, ctl, tm, nmsg, acc, seq, last, recv, tsent, tmr, torecv, ss, mr, gvtNodes, rounds, rnd, seen>>

(* ---------- gvt_node_phase_run ---------- *)
Old(n) == 1 - col[n]    \* !gvt_phase: the colour in use before the flip
\* node_sent_reduce: add what was sent with the old colour since the last round, post the reduce-scatter
SentReduce(n) ==
  /\ nph[n] = "sr" /\ hand[n] = 0
  /\ LET ts == [d \in Rank |-> tsent[n][d] + seq[n][Old(n)][d] - last[n][Old(n)][d]] IN
       /\ tsent' = [tsent EXCEPT ![n] = ts]
       /\ ss' = [ss EXCEPT ![n] = <<rnd[n], ts>>]
  /\ last' = [last EXCEPT ![n][Old(n)] = seq[n][Old(n)]]
  /\ tmr' = [tmr EXCEPT ![n] = @ + 1]
  /\ nph' = [nph EXCEPT ![n] = "srw"]
  /\ UNCHANGED <<pend, hand, net, ctl, tm, nmsg, acc, tph, redp, col, seq, recv, torecv, mr, gvtNodes, rounds, rnd, seen>>
\* node_sent_reduce_wait: the collective completes once every rank has posted its vector for this round
SentReduceWait(n) ==
  /\ nph[n] = "srw" /\ hand[n] = 0
  /\ \A j \in Rank : ss[j][1] >= rnd[n]
  /\ LET r == SumOver([j \in Rank |-> ss[j][2][n]], Rank) IN
       /\ torecv' = [torecv EXCEPT ![n] = r]
       /\ tmr' = [tmr EXCEPT ![n] = @ - (r + 1)]
  /\ nph' = [nph EXCEPT ![n] = "sw"]
  /\ UNCHANGED <<pend, hand, net, ctl, tm, nmsg, acc, tph, redp, col, seq, last, recv, tsent, ss, mr, gvtNodes, rounds, rnd, seen>>
\* node_sent_wait: r = fetch_add(total_msg_received, received[old]); received[old] = 0; pass iff r = 0
SentWait(n) ==
  /\ nph[n] = "sw" /\ hand[n] = 0
  /\ tmr' = [tmr EXCEPT ![n] = @ + recv[n][Old(n)]]
  /\ recv' = [recv EXCEPT ![n][Old(n)] = 0]
  /\ IF tmr[n] = 0
     THEN nph' = [nph EXCEPT ![n] = "r2"] /\ tsent' = [tsent EXCEPT ![n] = [d \in Rank |-> 0]]
     ELSE UNCHANGED <<nph, tsent>>
  /\ UNCHANGED <<pend, hand, net, ctl, tm, nmsg, acc, tph, redp, col, seq, last, torecv, ss, mr, gvtNodes, rounds, rnd, seen>>
\* node_min_reduce: post the all-reduce of the rank's minimum
MinReduce(n) ==
  /\ nph[n] = "mr" /\ hand[n] = 0
  /\ mr' = [mr EXCEPT ![n] = <<rnd[n], redp[n]>>]
  /\ nph' = [nph EXCEPT ![n] = "mrw"]
  /\ UNCHANGED <<pend, hand, net, ctl, tm, nmsg, acc, tph, redp, col, seq, last, recv, tsent, tmr, torecv, ss, gvtNodes, rounds, rnd, seen>>
\* node_min_reduce_wait: the value is handed to the consumers of the rank (parallel.c)
MinReduceWait(n) ==
  /\ nph[n] = "mrw" /\ hand[n] = 0
  /\ \A j \in Rank : mr[j][1] >= rnd[n]
  /\ seen' = [seen EXCEPT ![n] = MinOf({mr[j][2] : j \in Rank})]
  /\ nph' = [nph EXCEPT ![n] = "done"]
  /\ UNCHANGED <<pend, hand, net, ctl, tm, nmsg, acc, tph, redp, col, seq, last, recv, tsent, tmr, torecv, ss, mr, gvtNodes, rounds, rnd>>
\* node_done: back to idle, GVT_DONE to rank 0
NodeDone(n) ==
  /\ nph[n] = "done" /\ hand[n] = 0
  /\ nph' = [nph EXCEPT ![n] = "r1"] /\ tph' = [tph EXCEPT ![n] = "idle"]
  /\ ctl' = ctl \cup {[kind |-> "done", dst |-> 0, n |-> n]}
  /\ UNCHANGED <<pend, hand, net, tm, nmsg, acc, redp, col, seq, last, recv, tsent, tmr, torecv, ss, mr, gvtNodes, rounds, rnd, seen>>

Next ==
  \/ Initiate \/ RecvDone
  \/ \E n \in Rank : Extract(n) \/ Send(n) \/ Finish(n) \/ Recv(n) \/ RecvStart(n) \/ PhaseA(n) \/ PhaseC(n)
                     \/ SentReduce(n) \/ SentReduceWait(n) \/ SentWait(n) \/ MinReduce(n) \/ MinReduceWait(n) \/ NodeDone(n)
Spec == Init /\ [][Next]_vars
FairSpec == Spec /\ WF_vars(Next)

(***************************************************************************)
(* C04 across ranks                                                        *)
(***************************************************************************)
AllMsgs == UNION {pend[n] \cup (IF hand[n] = 0 THEN {} ELSE {hand[n]}) : n \in Rank} \cup {x.id : x \in net}
\* at the moment a rank is told GVT = g, no message anywhere (queued, in hand, in flight) is below g
NothingBelowGvt == [][\A n \in Rank : seen'[n] # seen[n] => \A m \in AllMsgs : tm[m] >= seen'[n]]_vars
NeverBelowSeen == \A n \in Rank : \A m \in AllMsgs : tm[m] >= seen[n]
Monotone == [][\A n \in Rank : seen'[n] >= seen[n]]_vars
\* the ranks that have been told the value of the same round were told the same value
Agreed == \A a, b \in Rank : (nph[a] = "done" /\ nph[b] = "done" /\ rnd[a] = rnd[b]) => seen[a] = seen[b]
\* the wait for old-coloured messages is exact: when a rank starts its second reduction, nothing with the colour it
\* waited for is still in flight towards it
OldColourDrained == \A n \in Rank : nph[n] \in {"r2", "mr", "mrw"} => ~\E x \in net : x.dst = n /\ x.col = Old(n)
CountersSane == \A n \in Rank : tmr[n] \in (0 - MaxMsgs - 1)..(MaxMsgs + 1)
RoundsComplete == (gvtNodes = K) ~> (gvtNodes = 0)
=============================================================================
