----------------------------- MODULE SeqSimTrace -----------------------------
(***************************************************************************)
(* Trace validation of src/serial/serial.c against SeqSim (property C10).  *)
(* The trace (env TRACE) is written by harness/twh.c in --serial mode: the *)
(* model logs every dispatch it receives (Disp) and every event it         *)
(* schedules (Sched), LP_FINI calls (ModelFini).  Each line must be a step *)
(* of SeqSim: Disp must deliver a Before-minimal pending event with the    *)
(* content that was scheduled, exactly once; the resulting model state must*)
(* be Handle(..); the scheduled events must be exactly Sends(..).          *)
(***************************************************************************)
EXTENDS SeqSim

TraceLog == ndJsonDeserialize(IOEnv.TRACE)
Cfg == TraceLog[1]
AllowPred == Cfg.nev = 0

VARIABLES l,   \* next trace line
          exp, \* sends the last handler must still perform, in order
          cur  \* LP of the last dispatch
tvars == <<svars, l, exp, cur>>

Line == TraceLog[l]
IsEvent(e) == l <= Len(TraceLog) /\ Line.e = e /\ l' = l + 1

TInit == SInit /\ l = 1 /\ exp = <<>> /\ cur = -1 /\ TLCSet(1, 0)

TConfig == IsEvent("Config") /\ UNCHANGED <<svars, exp, cur>>

TSkip == (IsEvent("Alloc") \/ IsEvent("Free")) /\ UNCHANGED <<svars, exp, cur>>

TInitLp ==
  /\ IsEvent("Disp") /\ Line.ty = LpInitType
  /\ exp = <<>>
  /\ Line.lp = nextLp /\ Line.t = 0 /\ Line.s = 0 /\ Line.cnt = 0
  /\ InitLp
  /\ exp' = InitSends(Line.lp) /\ cur' = Line.lp

TSched ==
  /\ IsEvent("Sched")
  /\ exp # <<>>
  /\ Line.lp = cur
  /\ Head(exp) = [lp |-> Line.d, t |-> Line.t, ty |-> Line.ty, pid |-> Line.pid]
  /\ Line.sz = PSize(Line.pid)
  /\ exp' = Tail(exp)
  /\ UNCHANGED <<svars, cur>>

TDisp ==
  /\ IsEvent("Disp") /\ Line.ty # LpInitType
  /\ exp = <<>>
  /\ ~(AllowPred /\ \A k \in LPs : held[k])
  /\ \E e \in pend :
       /\ e.lp = Line.lp /\ e.t = Line.t /\ e.ty = Line.ty /\ e.pid = Line.pid
       /\ Line.sz = PSize(e.pid)
       /\ UsesDraw(st[e.lp].s, e.ty) = (Line.u16 >= 0)
       /\ Dispatch(e, IF Line.u16 >= 0 THEN Line.u16 ELSE 0)
       /\ exp' = Sends(e.lp, st[e.lp], e.t, e.ty, e.pid, IF Line.u16 >= 0 THEN Line.u16 ELSE 0)
  /\ st'[Line.lp] = [s |-> Line.s, cnt |-> Line.cnt]
  /\ (Line.pred = 1) = Pred(Line.lp, st'[Line.lp])
  /\ cur' = Line.lp

TStop ==
  /\ l <= Len(TraceLog) /\ Line.e = "ModelFini" /\ phase = "run"
  /\ exp = <<>>
  /\ Stop(AllowPred)
  /\ UNCHANGED <<l, exp, cur>>

TFini ==
  /\ IsEvent("ModelFini")
  /\ Line.lp = nextLp
  /\ Line.s = st[Line.lp].s /\ Line.cnt = st[Line.lp].cnt
  /\ Line.bad = 0
  /\ FiniLp
  /\ UNCHANGED <<exp, cur>>

TEnd == IsEvent("End") /\ phase = "done" /\ Line.ret = 0 /\ Line.bad = 0 /\ UNCHANGED <<svars, exp, cur>>

TNext == TConfig \/ TSkip \/ TInitLp \/ TSched \/ TDisp \/ TStop \/ TFini \/ TEnd
TSpec == TInit /\ [][TNext]_tvars

\* bookkeeping for acceptance: highest line index reached
Progress == TLCSet(1, IF l > TLCGet(1) THEN l ELSE TLCGet(1))
Post == PrintT(<<"RESULT", TLCGet(1) - 1, Len(TraceLog)>>) /\ TLCGet(1) = Len(TraceLog) + 1
=============================================================================
