------------------------------ MODULE TimeWarp ------------------------------
(***************************************************************************)
(* The optimistic (Time Warp) engine of ROOT-Sim/core on one node, at the  *)
(* granularity of its shared-memory accesses.                              *)
(*                                                                         *)
(* This module holds the STATE and the parametrised ACTIONS (one per       *)
(* critical section of src/lp/process.c, src/datatypes/msg_queue.c,        *)
(* src/gvt/fossil.c, src/mm/msg_allocator.c, src/gvt/termination.c and the *)
(* consumers of a GVT value in src/parallel/parallel.c), together with the *)
(* property predicates C01..C09, C13, C15.  Every action takes as          *)
(* parameters the choices the implementation makes (which message was      *)
(* extracted, which history entry is undone, which checkpoint is restored, *)
(* which value is published).  TimeWarpTrace binds the parameters to what  *)
(* the real code logged; TimeWarpMC computes them like the code does and   *)
(* explores every interleaving.                                            *)
(*                                                                         *)
(* Each action returns, next to the state update, the list of property     *)
(* checks evaluated at that step (`Checks'), i.e. the verdict layer: the   *)
(* reconstruction accepts any well-formed step and the checks judge it.    *)
(***************************************************************************)
EXTENDS Naturals, Integers, Sequences, FiniteSets, TLC

CONSTANTS Threads,   \* identities of the worker threads (rank * 8 + thread for multi-rank runs)
          NLp,       \* LPs 0..NLp-1
          Inf        \* the value logged for SIMTIME_MAX

LpSet == 0..(NLp - 1)
NoGhost == [s |-> -1, cnt |-> -1, a |-> -1, b |-> -1, blk |-> -1]

VARIABLES
  msg,      \* id -> [lp, t, ty, pid, flags, inq, q, src] : live message buffers
            \*   flags: the shared word (ANTI=1, PROCESSED=2, fetch_add arithmetic)
            \*   inq: "new" (allocated, not yet visible) | "inbox" | "heap" | "none"
            \*   q: thread whose inbox/heap holds it;  src: sending LP (-1: LP_INIT)
            \*   (a message can be in the hand of its receiver AND, as anti copy, in its inbox)
  hist,     \* lp -> Seq of [k |-> "s"|"e", m, t, g, pred] : p_msgs (sent marks and events)
  base,     \* lp -> ghost state at the beginning of hist (state of the newest fossil-collected event)
  ckpt,     \* lp -> Seq of [ref, size] : mm_state.logs
  owner,    \* lp -> owning thread (-1 before LP_INIT)
  rb,       \* thr -> [on, lp, past, restored] : rollback in progress
  cpos,     \* lp -> number of committed events
  cheld,    \* lp -> predicate held on a committed state (or at initialisation)
  termT,    \* lp -> time at which the runtime believes the predicate first held (-1: not yet)
  gvtSeen,  \* thr -> last GVT handed to this thread (0 = none yet)
  gvtCnt,   \* thr -> number of GVT values handed to this thread
  gvtVals,  \* sequence of GVT values by round
  finiLp,   \* lp -> LP_FINI done
  finiQ,    \* thr -> the thread is tearing down its queue
  votes,    \* GVT round (per-thread count of values received) in which the latest termination vote was cast
  stopped,  \* RootsimStop was called
  exited,   \* thr -> left the main loop
  hand,     \* thr -> message extracted and not yet executed/released (0: none)
  voted,    \* thr -> the thread has cast its termination vote
  maxDecl,  \* thr -> largest timestamp at which one of its LPs ever declared its predicate true
  mustVote, \* thr -> the GVT just handed over obliges the thread to vote now
  announced,\* the termination of this node has been announced (MSG_CTRL_TERMINATION processed)
  net,      \* nm -> [kind, t, id, sq, src]: messages handed to MPI and not yet received (multi-rank runs)
  rx,       \* thr -> the network message just received and not yet inserted (or NoRx)
  lastNm,   \* thr -> network message of the last send of this thread (to bind it to the sender's buffer)
  early     \* lp -> set of early remote anti-messages parked at the LP

vars == <<msg, hist, base, ckpt, owner, rb, cpos, cheld, termT, gvtSeen, gvtCnt, gvtVals, finiLp, finiQ,
          votes, stopped, exited, hand, voted, maxDecl, mustVote, announced, net, rx, lastNm, early>>

NoRx == [kind |-> "none", t |-> -1, id |-> 0, sq |-> 0, src |-> -1, nm |-> 0, pnm |-> 0]
NoRb == [on |-> FALSE, lp |-> -1, past |-> 0, restored |-> FALSE, touched |-> {}]

Init ==
  /\ msg = <<>>
  /\ hist = [p \in LpSet |-> <<>>]
  /\ base = [p \in LpSet |-> NoGhost]
  /\ ckpt = [p \in LpSet |-> <<>>]
  /\ owner = [p \in LpSet |-> -1]
  /\ rb = [r \in Threads |-> NoRb]
  /\ cpos = [p \in LpSet |-> 0]
  /\ cheld = [p \in LpSet |-> FALSE]
  /\ termT = [p \in LpSet |-> -1]
  /\ gvtSeen = [r \in Threads |-> 0]
  /\ gvtCnt = [r \in Threads |-> 0]
  /\ gvtVals = <<>>
  /\ finiLp = [p \in LpSet |-> FALSE]
  /\ finiQ = [r \in Threads |-> FALSE]
  /\ votes = 0
  /\ stopped = FALSE
  /\ exited = [r \in Threads |-> FALSE]
  /\ hand = [r \in Threads |-> 0]
  /\ voted = [r \in Threads |-> FALSE]
  /\ maxDecl = [r \in Threads |-> 0]
  /\ mustVote = [r \in Threads |-> FALSE]
  /\ announced = FALSE
  /\ net = <<>>
  /\ rx = [r \in Threads |-> NoRx]
  /\ lastNm = [r \in Threads |-> [nm |-> 0, kind |-> "none", id |-> 0, sq |-> 0]]
  /\ early = [p \in LpSet |-> {}]

----------------------------------------------------------------------------
(* helpers *)
Live(m) == m \in DOMAIN msg
Put(f, k, v) == [x \in (DOMAIN f) \cup {k} |-> IF x = k THEN v ELSE f[x]]
Drop(f, k) == [x \in (DOMAIN f) \ {k} |-> f[x]]
Low(f) == f % 4     \* the two flag bits; the rest of the word is the identity of a remote message
HasAnti(f) == f % 2 = 1
HasProc(f) == f >= 2   \* local messages: 2, 3 and (anti copy extracted after processing) 3 + 2 = 5
\* messages received from another rank keep their identity in the upper bits of the word
FromNet(m) == msg[m].nm # 0 /\ ~msg[m].rem
HasProcM(m, f) == IF FromNet(m) THEN Low(f) >= 2 ELSE HasProc(f)

\* two buffers carry the same remote identity (an event and its anti-message)
SameRemote(a, b) == msg[a].nm # 0 /\ msg[b].nm # 0 /\ msg[a].sq = msg[b].sq /\ (msg[a].flags - Low(msg[a].flags)) = (msg[b].flags - Low(msg[b].flags))

\* true identity (ghost): the anti-message am was put on the network to cancel exactly the send whose network identity is msg[am].pnm;
\* independent of how the code stamps and compares identities (sender id, sequence number)
Cancels(am, m) == msg[am].pnm # 0 /\ msg[m].nm = msg[am].pnm /\ ~msg[m].rem
InboxOf(r) == {m \in DOMAIN msg : msg[m].inq = "inbox" /\ msg[m].q = r}
HeapOf(r) == {m \in DOMAIN msg : msg[m].inq = "heap" /\ msg[m].q = r}
HandOf(r) == IF hand[r] = 0 THEN {} ELSE {hand[r]}
\* every message that is still going to be looked at by some thread
Pending == {m \in DOMAIN msg : msg[m].inq \in {"inbox", "heap"} \/ \E r \in Threads : hand[r] = m}

IdxOf(p, k, m) == {i \in 1..Len(hist[p]) : hist[p][i].k = k /\ hist[p][i].m = m}
InHistE(m) == \E p \in LpSet : ~finiLp[p] /\ IdxOf(p, "e", m) # {}
Min(S) == CHOOSE x \in S : \A y \in S : x <= y
Max(S) == CHOOSE x \in S : \A y \in S : x >= y

\* ghost state after the first n history entries of LP p (n = 0: the base)
EvIdx(p, n) == {i \in 1..n : hist[p][i].k = "e"}
GhostAt(p, n) == IF EvIdx(p, n) = {} THEN base[p] ELSE hist[p][Max(EvIdx(p, n))].g

\* a check is <<holds, property id, label>>
Failed(cs) == SelectSeq(cs, LAMBDA c : ~c[1])

----------------------------------------------------------------------------
(* msg_allocator_alloc (src/mm/msg_allocator.c) *)
Alloc(r, m) ==
  /\ msg' = Put(msg, m, [lp |-> -1, t |-> -1, ty |-> -1, pid |-> -1, flags |-> 0, inq |-> "new", q |-> r, src |-> -1, rem |-> FALSE, sq |-> 0, nm |-> 0, pnm |-> 0])
  /\ UNCHANGED <<hist, base, ckpt, owner, rb, cpos, cheld, termT, gvtSeen, gvtCnt, gvtVals, finiLp, finiQ, votes,
                 stopped, exited, hand, voted, maxDecl, mustVote, announced, net, rx, lastNm, early>>
AllocChecks(r, m) ==
  << <<~Live(m), "C06", "buffer handed out while still live">>,
     \* events re-executed silently must not emit events (ScheduleNewEvent returns before packing)
     <<~(rb[r].on /\ rb[r].restored), "C05", "message allocated during silent re-execution">> >>

(* process_lp_init (src/lp/process.c:90): LP_INIT is processed and stays as first history entry *)
LpInit(r, p, m, g, pred) ==
  /\ msg' = [msg EXCEPT ![m] = [@ EXCEPT !.lp = p, !.t = 0, !.ty = 65534, !.flags = 2, !.inq = "none"]]
  /\ hist' = [hist EXCEPT ![p] = Append(@, [k |-> "e", m |-> m, t |-> 0, ty |-> 65534, pid |-> -1, g |-> g, pred |-> pred])]
  /\ owner' = [owner EXCEPT ![p] = r]
  /\ UNCHANGED <<base, ckpt, rb, cpos, cheld, termT, gvtSeen, gvtCnt, gvtVals, finiLp, finiQ, votes, stopped, exited, hand, voted, maxDecl, mustVote, announced, net, rx, lastNm, early>>
LpInitChecks(r, p, m) ==
  << <<Live(m) /\ msg[m].inq = "new", "C06", "LP_INIT uses a buffer that is not fresh">>,
     <<owner[p] = -1, "C14", "LP initialised twice">> >>

(* msg_queue_insert (src/datatypes/msg_queue.c:118): successful CAS push into the inbox of thread q.
   For a fresh message this is also the moment its content becomes defined. *)
Push(r, m, q, c) ==
  /\ msg' = [msg EXCEPT ![m] = IF @.inq = "new"
                                THEN [@ EXCEPT !.lp = c.lp, !.t = c.t, !.ty = c.ty, !.pid = c.pid, !.inq = "inbox", !.q = q,
                                               \* a message that arrived from another rank carries its identity in the flag word
                                               !.flags = IF rx[r].kind = "none" THEN @ ELSE (rx[r].id - Low(rx[r].id)) + (IF rx[r].kind = "anti" THEN 1 ELSE 0),
                                               !.nm = IF rx[r].kind = "none" THEN 0 ELSE rx[r].nm, !.sq = rx[r].sq,
                                               \* an anti-message also carries (ghost) the network identity of the send it cancels
                                               !.pnm = IF rx[r].kind = "anti" THEN rx[r].pnm ELSE 0]
                                ELSE [@ EXCEPT !.inq = "inbox", !.q = q]]
  /\ rx' = [rx EXCEPT ![r] = IF msg[m].inq = "new" THEN NoRx ELSE @]
  /\ UNCHANGED <<hist, base, ckpt, owner, rb, cpos, cheld, termT, gvtSeen, gvtCnt, gvtVals, finiLp, finiQ, votes,
                 stopped, exited, hand, voted, maxDecl, mustVote, announced, net, lastNm, early>>
PushChecks(r, m, q, c) ==
  << <<Live(m), "C06", "freed buffer inserted into a queue">>,
     <<Live(m) => msg[m].inq \in {"new", "none"}, "C06", "message inserted while already queued">>,
     <<Live(m) /\ msg[m].inq # "new" => (msg[m].lp = c.lp /\ msg[m].t = c.t /\ msg[m].ty = c.ty /\ msg[m].pid = c.pid),
       "C06", "content of a re-inserted message changed">>,
     <<owner[c.lp] \in {-1, q}, "C14", "event routed to a thread that does not own the destination LP">>,
     <<~(rb[r].on /\ rb[r].restored), "C05", "event emitted during silent re-execution">>,
     <<c.t >= gvtSeen[r], "C04", "message created below the GVT known to its sender">>,
     <<(Live(m) /\ msg[m].inq = "new" /\ rx[r].kind # "none") => c.t = rx[r].t, "C02", "a message received from another rank carries a different timestamp than the one sent">> >>

(* ScheduleNewEvent (src/lp/process.c:38): the sender records the message in its history *)
Send(r, p, m) ==
  /\ hist' = [hist EXCEPT ![p] = Append(@, [k |-> "s", m |-> m, t |-> msg[m].t, ty |-> msg[m].ty, pid |-> msg[m].pid, g |-> NoGhost, pred |-> FALSE])]
  /\ msg' = [msg EXCEPT ![m].src = p]
  /\ UNCHANGED <<base, ckpt, owner, rb, cpos, cheld, termT, gvtSeen, gvtCnt, gvtVals, finiLp, finiQ, votes, stopped,
                 exited, hand, voted, maxDecl, mustVote, announced, net, rx, lastNm, early>>
SendChecks(r, p, m) ==
  << <<Live(m), "C06", "sent message is not live">>,
     <<owner[p] \in {-1, r}, "C14", "LP runs on a thread that does not own it">> >>

(* msg_queue_insert_queued (src/datatypes/msg_queue.c:76): atomic exchange of the whole inbox *)
Drain(r, n) ==
  /\ msg' = [m \in DOMAIN msg |-> IF m \in InboxOf(r) THEN [msg[m] EXCEPT !.inq = "heap"] ELSE msg[m]]
  /\ UNCHANGED <<hist, base, ckpt, owner, rb, cpos, cheld, termT, gvtSeen, gvtCnt, gvtVals, finiLp, finiQ, votes,
                 stopped, exited, hand, voted, maxDecl, mustVote, announced, net, rx, lastNm, early>>
DrainChecks(r, n) ==
  << <<Cardinality(InboxOf(r)) = n, "C15", "buffer swap lost or duplicated an inserted event">>,
     <<Cardinality(InboxOf(r)) = n, "C06", "an inserted event was lost or duplicated between insertion and extraction (buffer swap)">>,
     <<Cardinality(InboxOf(r)) = n, "C01", "an inserted event was lost or duplicated between insertion and extraction (buffer swap)">>,
     <<Cardinality(InboxOf(r)) = n, "C02", "an inserted event was lost or duplicated between insertion and extraction (buffer swap)">> >>

(* msg_queue_extract + gvt_on_msg_extraction (process.c:354-360) *)
Extract(r, m) ==
  /\ msg' = [msg EXCEPT ![m].inq = "none"]
  /\ hand' = [hand EXCEPT ![r] = m]
  /\ UNCHANGED <<hist, base, ckpt, owner, rb, cpos, cheld, termT, gvtSeen, gvtCnt, gvtVals, finiLp, finiQ, votes,
                 stopped, exited, voted, maxDecl, mustVote, announced, net, rx, lastNm, early>>
ExtractChecks(r, m) ==
  << <<Live(m), "C06", "freed buffer extracted">>,
     <<Live(m) => m \in HeapOf(r), "C15", "extracted an event that was not transferred to this thread">>,
     <<Live(m) => \A x \in HeapOf(r) : msg[m].t <= msg[x].t, "C15", "extraction is not a minimum-time element">>,
     <<Live(m) => msg[m].t >= gvtSeen[r], "C04", "extracted an event below the GVT told to this thread">>,
     <<HandOf(r) = {}, "C06", "thread extracted while still holding a message">>,
     <<Live(m) => owner[msg[m].lp] = r, "C14", "event extracted by a thread that does not own its LP">> >>

(* fetch_add(PROCESSED) in process_msg (process.c:371); old is the value read *)
Flag(r, m, old) ==
  /\ msg' = [msg EXCEPT ![m].flags = old + 2]
  /\ UNCHANGED <<hist, base, ckpt, owner, rb, cpos, cheld, termT, gvtSeen, gvtCnt, gvtVals, finiLp, finiQ, votes,
                 stopped, exited, hand, voted, maxDecl, mustVote, announced, net, rx, lastNm, early>>
FlagChecks(r, m, old) ==
  << <<Live(m), "C06", "flag of a freed buffer updated">>,
     <<Live(m) => m \in HandOf(r), "C06", "flag update on a message not in hand">>,
     \* an event that is (still) marked processed is being delivered a second time
     <<Live(m) => (IF FromNet(m) THEN Low(old) \in {0, 1} ELSE old \in {0, 1, 3}), "C06", "event delivered while still marked processed, or flag word corrupted">>,
     \* the anti copy of a processed event (3) must be in the history of its LP
     <<(Live(m) /\ ~FromNet(m) /\ old = 3) => IdxOf(msg[m].lp, "e", m) # {}, "C06", "annihilation of a processed event that is not in history">>,
     <<(Live(m) /\ (FromNet(m) \/ old \in {0, 1})) => ~InHistE(m), "C06", "unprocessed event is in a history">> >>

(* do_rollback entry (process.c:202) *)
RbBegin(r, p, past) ==
  /\ rb' = [rb EXCEPT ![r] = [on |-> TRUE, lp |-> p, past |-> past, restored |-> FALSE, touched |-> {}]]
  /\ UNCHANGED <<msg, hist, base, ckpt, owner, cpos, cheld, termT, gvtSeen, gvtCnt, gvtVals, finiLp, finiQ, votes,
                 stopped, exited, hand, voted, maxDecl, mustVote, announced, net, rx, lastNm, early>>
RbBeginChecks(r, p, past) ==
  << <<owner[p] = r, "C14", "rollback of an LP by a thread that does not own it">>,
     <<past <= Len(hist[p]), "C05", "rollback target beyond the history">>,
     \* nothing at or below the committed frontier is undone
     <<\A i \in (past + 1)..Len(hist[p]) : hist[p][i].k = "e" => hist[p][i].t >= gvtSeen[r],
       "C04", "rollback undoes an event below the GVT told to this thread">>,
     <<~rb[r].on, "C05", "nested rollback">> >>

(* send_anti_messages, local sent message (process.c:178-182): fetch_add(ANTI) *)
AntiLocal(r, m, old) ==
  /\ msg' = [msg EXCEPT ![m].flags = old + 1]
  /\ rb' = [rb EXCEPT ![r].touched = @ \cup {m}]
  /\ UNCHANGED <<hist, base, ckpt, owner, cpos, cheld, termT, gvtSeen, gvtCnt, gvtVals, finiLp, finiQ, votes,
                 stopped, exited, hand, voted, maxDecl, mustVote, announced, net, rx, lastNm, early>>
AntiLocalChecks(r, m, old) ==
  << <<Live(m), "C06", "anti-message for a buffer that was already released">>,
     <<rb[r].on /\ ~rb[r].restored, "C06", "cancellation outside a rollback">>,
     <<rb[r].on => \E i \in IdxOf(rb[r].lp, "s", m) : i > rb[r].past, "C06", "cancelled a message not sent by an undone event">>,
     <<~HasAnti(old), "C06", "message cancelled twice">> >>
\* after AntiLocal the sender re-inserts the message iff the receiver had processed it
AntiNeedsInsert(old) == HasProc(old)

(* send_anti_messages, undone event (process.c:189-191): fetch_add(-PROCESSED) *)
Undo(r, m, old) ==
  /\ msg' = [msg EXCEPT ![m].flags = old - 2]
  /\ rb' = [rb EXCEPT ![r].touched = @ \cup {m}]
  /\ UNCHANGED <<hist, base, ckpt, owner, cpos, cheld, termT, gvtSeen, gvtCnt, gvtVals, finiLp, finiQ, votes,
                 stopped, exited, hand, voted, maxDecl, mustVote, announced, net, rx, lastNm, early>>
UndoChecks(r, m, old) ==
  << <<Live(m), "C06", "undone event buffer already released">>,
     <<rb[r].on /\ ~rb[r].restored, "C06", "event undone outside a rollback">>,
     <<rb[r].on => \E i \in IdxOf(rb[r].lp, "e", m) : i > rb[r].past, "C06", "undone event is not in the rolled back suffix">>,
     <<Live(m) => HasProcM(m, old), "C06", "undone event was not marked processed">> >>
UndoNeedsInsert(old) == ~HasAnti(old)

(* model_allocator_checkpoint_restore (multi.c:181): checkpoint with reference `last' restored,
   history cut to `past' entries *)
Restore(r, p, last, past) ==
  /\ hist' = [hist EXCEPT ![p] = SubSeq(@, 1, past)]
  /\ ckpt' = [ckpt EXCEPT ![p] = SelectSeq(@, LAMBDA c : c.ref <= last)]
  /\ rb' = [rb EXCEPT ![r].restored = TRUE]
  /\ UNCHANGED <<msg, base, owner, cpos, cheld, termT, gvtSeen, gvtCnt, gvtVals, finiLp, finiQ, votes, stopped, exited, hand, voted, maxDecl, mustVote, announced, net, rx, lastNm, early>>
\* every undone entry must have been visited: sent messages cancelled, events unmarked
RestoreChecks(r, p, last, past) ==
  << <<rb[r].on /\ rb[r].lp = p /\ rb[r].past = past, "C05", "restore does not belong to the rollback in progress">>,
     <<\E i \in 1..Len(ckpt[p]) : ckpt[p][i].ref = last, "C05", "restored a checkpoint that does not exist">>,
     <<last <= past, "C05", "restored a checkpoint taken after the rollback point">>,
     <<\A i \in (past + 1)..Len(hist[p]) : hist[p][i].m \in rb[r].touched,
       "C06", "an undone entry was neither cancelled nor unmarked">>,
     <<\A i \in (past + 1)..Len(hist[p]) :
          LET e == hist[p][i] IN
            (e.k = "e" /\ Live(e.m) /\ ~HasAnti(msg[e.m].flags)) => msg[e.m].inq \in {"inbox", "heap"},
       "C06", "an undone, still valid event was not re-queued">> >>

(* end of do_rollback (after silent_execution): the state handed to the next handler *)
RbEnd(r, p, g) ==
  /\ rb' = [rb EXCEPT ![r] = NoRb]
  /\ UNCHANGED <<msg, hist, base, ckpt, owner, cpos, cheld, termT, gvtSeen, gvtCnt, gvtVals, finiLp, finiQ, votes,
                 stopped, exited, hand, voted, maxDecl, mustVote, announced, net, rx, lastNm, early>>
RbEndChecks(r, p, g, size, calc) ==
  << <<rb[r].on /\ rb[r].restored /\ rb[r].lp = p, "C05", "rollback end without restore">>,
     <<g = GhostAt(p, Len(hist[p])), "C05", "state after rollback differs from the state after the last valid event">>,
     <<size = calc, "C11", "checkpoint size accounting differs from the allocator contents after restore">>,
     <<size = calc, "C05", "checkpoint size accounting differs from the allocator contents after restore (checkpoints will be cut short or overflow)">> >>

(* forward execution of m by LP p (process.c:388-396); g is the ghost state after the handler *)
Exec(r, p, m, g, pred) ==
  /\ hist' = [hist EXCEPT ![p] = Append(@, [k |-> "e", m |-> m, t |-> msg[m].t, ty |-> msg[m].ty, pid |-> msg[m].pid, g |-> g, pred |-> pred])]
  /\ hand' = [hand EXCEPT ![r] = 0]
  /\ UNCHANGED <<msg, base, ckpt, owner, rb, cpos, cheld, termT, gvtSeen, gvtCnt, gvtVals, finiLp, finiQ, votes, stopped,
                 exited, voted, maxDecl, mustVote, announced, net, rx, lastNm, early>>
LastEvT(p) == IF EvIdx(p, Len(hist[p])) = {} THEN -1 ELSE hist[p][Max(EvIdx(p, Len(hist[p])))].t
ExecChecks(r, p, m, size, calc) ==
  << <<Live(m), "C06", "executed a freed event">>,
     <<Live(m) => (m \in HandOf(r) /\ msg[m].lp = p), "C06", "executed an event that was not extracted for this LP">>,
     <<Live(m) => HasProcM(m, msg[m].flags), "C06", "executed an event without marking it processed">>,
     <<owner[p] = r, "C14", "LP executed by a thread that does not own it">>,
     <<~rb[r].on, "C05", "forward execution inside a rollback">>,
     <<Live(m) => msg[m].t >= LastEvT(p), "C01", "event executed after a later event of the same LP without rollback">>,
     <<Live(m) => ~\E am \in early[p] : Live(am) /\ SameRemote(m, am), "C06", "an event cancelled by an early remote anti-message was delivered">>,
     <<Live(m) => ~\E am \in early[p] : Live(am) /\ SameRemote(m, am), "C02", "an event cancelled by an early remote anti-message was delivered">>,
     <<Live(m) => ~\E am \in early[p] : Live(am) /\ Cancels(am, m), "C06", "an event was delivered although the anti-message sent to cancel it is parked at the LP">>,
     <<Live(m) => ~\E am \in early[p] : Live(am) /\ Cancels(am, m), "C02", "an event was delivered although the anti-message sent to cancel it is parked at the LP">>,
     <<size = calc, "C11", "checkpoint size accounting differs from the allocator contents">>,
     <<size = calc, "C05", "checkpoint size accounting differs from the allocator contents (the next checkpoint will be cut short or overflow: a later rollback restores wrong bytes)">> >>

(* checkpoint_take (process.c:78) *)
Ckpt(r, p, ref, size) ==
  /\ ckpt' = [ckpt EXCEPT ![p] = Append(@, [ref |-> ref, size |-> size])]
  /\ UNCHANGED <<msg, hist, base, owner, rb, cpos, cheld, termT, gvtSeen, gvtCnt, gvtVals, finiLp, finiQ, votes, stopped,
                 exited, hand, voted, maxDecl, mustVote, announced, net, rx, lastNm, early>>
CkptChecks(r, p, ref, size) ==
  << <<ref = Len(hist[p]), "C13", "checkpoint reference is not the current history length">>,
     <<ckpt[p] # <<>> => ckpt[p][Len(ckpt[p])].ref < ref, "C13", "checkpoint references do not increase">> >>

(* fossil_lp_collect (fossil.c:32): the first n history entries are released using GVT g *)
CommittedOf(p, n) == SelectSeq(SubSeq(hist[p], 1, n), LAMBDA e : e.k = "e" /\ e.ty # 65534)
Fossil(r, p, g, n) ==
  /\ hist' = [hist EXCEPT ![p] = SubSeq(@, n + 1, Len(@))]
  /\ base' = [base EXCEPT ![p] = GhostAt(p, n)]
  /\ ckpt' = [ckpt EXCEPT ![p] = LET keep == SelectSeq(@, LAMBDA c : c.ref >= n) IN
                                   [i \in 1..Len(keep) |-> [ref |-> keep[i].ref - n, size |-> keep[i].size]]]
  /\ cpos' = [cpos EXCEPT ![p] = @ + Len(CommittedOf(p, n))]
  /\ cheld' = [cheld EXCEPT ![p] = @ \/ \E i \in 1..n : hist[p][i].k = "e" /\ hist[p][i].pred]
  /\ UNCHANGED <<msg, owner, rb, termT, gvtSeen, gvtCnt, gvtVals, finiLp, finiQ, votes, stopped, exited, hand, voted, maxDecl, mustVote, announced, net, rx, lastNm, early>>
FossilChecks(r, p, g, n) ==
  << <<owner[p] = r, "C14", "fossil collection by a thread that does not own the LP">>,
     <<n <= Len(hist[p]), "C13", "released more than the history holds">>,
     <<g <= gvtSeen[r], "C04", "fossil collection used a value above the GVT told to this thread">>,
     <<\A i \in 1..n : hist[p][i].k = "e" => hist[p][i].t < g, "C03", "released an event that is not below the GVT">>,
     <<\A i \in 1..n : hist[p][i].k = "e" => hist[p][i].t < g, "C13", "reclaimed history at or above the GVT: a rollback to the committed frontier is no longer possible">>,
     <<\A i \in 1..n : hist[p][i].k = "e" => hist[p][i].t < g, "C06", "the buffer of a processed event that can still be cancelled or rolled back (timestamp not below the GVT) was released">>,
     <<\A i \in 1..n : hist[p][i].k = "e" => hist[p][i].t < g, "C11", "a message buffer was released that a rollback of its sender can still access (timestamp not below the GVT): use after free">>,
     \* the kept history starts exactly at a kept checkpoint
     <<\E i \in 1..Len(ckpt[p]) : ckpt[p][i].ref = n, "C13", "kept history does not start at a kept checkpoint">>,
     <<~rb[r].on, "C13", "fossil collection inside a rollback">> >>

(* msg_allocator_free *)
Reachable(r, m) ==
  \/ msg[m].inq \in {"inbox", "heap"} /\ ~finiQ[msg[m].q]
  \/ \E q \in Threads \ {r} : hand[q] = m
  \/ \E p \in LpSet : m \in early[p]
  \/ InHistE(m)
Free(r, m) ==
  /\ msg' = Drop(msg, m)
  /\ hand' = [hand EXCEPT ![r] = IF @ = m THEN 0 ELSE @]
  /\ UNCHANGED <<hist, base, ckpt, owner, rb, cpos, cheld, termT, gvtSeen, gvtCnt, gvtVals, finiLp, finiQ, votes,
                 stopped, exited, voted, maxDecl, mustVote, announced, net, rx, lastNm, early>>
FreeChecks(r, m) ==
  << <<Live(m), "C06", "message buffer released twice">>,
     <<Live(m) => ~Reachable(r, m), "C06", "message buffer released while still reachable">>,
     <<(Live(m) /\ msg[m].inq = "atgvt" /\ ~finiQ[r]) => msg[m].t < gvtSeen[r], "C04", "buffer of a remotely cancelled message released before the GVT passed it">>,
     \* an anti-message that came from the network is consumed together with the event it cancels (rollback or early match): when it is
     \* released, that event must not be alive at this rank any more (processed, queued or in hand)
     <<(Live(m) /\ msg[m].pnm # 0 /\ ~finiQ[r]) => ~\E x \in DOMAIN msg : x # m /\ Cancels(m, x) /\ (InHistE(x) \/ msg[x].inq \in {"inbox", "heap"} \/ \E q \in Threads : hand[q] = x),
       "C06", "a remote anti-message was released without annihilating the event it was sent to cancel (the event stays delivered)">>,
     <<(Live(m) /\ msg[m].pnm # 0 /\ ~finiQ[r]) => ~\E x \in DOMAIN msg : x # m /\ Cancels(m, x) /\ (InHistE(x) \/ msg[x].inq \in {"inbox", "heap"} \/ \E q \in Threads : hand[q] = x),
       "C02", "a remote anti-message was released without annihilating the event it was sent to cancel (the event stays delivered)">> >>

\* the predicate of LP p held on a state that is committed with respect to GVT g
HeldCommitted(p, g) ==
  cheld[p] \/ \E i \in 1..Len(hist[p]) : hist[p][i].k = "e" /\ hist[p][i].pred /\ hist[p][i].t < g

(* a GVT value is handed to the consumers of thread r (parallel.c:71) *)
Gvt(r, g) ==
  /\ gvtSeen' = [gvtSeen EXCEPT ![r] = g]
  /\ gvtCnt' = [gvtCnt EXCEPT ![r] = @ + 1]
  /\ gvtVals' = IF gvtCnt[r] + 1 > Len(gvtVals) THEN Append(gvtVals, g) ELSE gvtVals
  \* C08: once every LP of the thread has its predicate true on a committed state, and no LP of the
  \* thread ever declared at or above g, the thread has to vote at this GVT (termination_on_gvt)
  /\ mustVote' = [mustVote EXCEPT ![r] = ~voted[r] /\ g > maxDecl[r] /\ \A p \in LpSet : owner[p] = r => HeldCommitted(p, g)]
  /\ UNCHANGED <<msg, hist, base, ckpt, owner, rb, cpos, cheld, termT, finiLp, finiQ, votes, stopped, exited, hand, voted, maxDecl, announced, net, rx, lastNm, early>>
PendingTimes == {msg[m].t : m \in {x \in Pending : msg[x].t >= 0}}
                  \cup {net[n].t : n \in {x \in DOMAIN net : net[x].kind # "ctrl"}}
                  \cup {rx[q].t : q \in {x \in Threads : rx[x].kind \in {"ev", "anti"}}}
PendingMin == IF PendingTimes = {} THEN Inf ELSE Min(PendingTimes)
GvtChecks(r, g) ==
  << <<g >= gvtSeen[r], "C04", "GVT decreased">>,
     <<gvtCnt[r] + 1 <= Len(gvtVals) => gvtVals[gvtCnt[r] + 1] = g, "C04", "threads were told different GVT values in the same round">>,
     <<g <= PendingMin, "C04", "a message below the reported GVT is still queued, buffered, in hand or in flight">>,
     <<g <= PendingMin, "C02", "a message below the reported GVT is still queued, buffered, in hand or in flight (between ranks: the distributed GVT overtook a message)">>,
     <<\A q \in Threads : rb[q].on => \A i \in (rb[q].past + 1)..Len(hist[rb[q].lp]) : hist[rb[q].lp][i].t >= g,
       "C04", "a rollback in progress reaches below the reported GVT">> >>

(* termination accounting (src/gvt/termination.c) *)
TermLp(r, p, t, term) ==
  /\ termT' = [termT EXCEPT ![p] = IF term THEN t ELSE @]
  /\ maxDecl' = [maxDecl EXCEPT ![r] = IF term /\ t > @ THEN t ELSE @]
  /\ UNCHANGED <<msg, hist, base, ckpt, owner, rb, cpos, cheld, gvtSeen, gvtCnt, gvtVals, finiLp, finiQ, votes, stopped,
                 exited, hand, voted, mustVote, announced, net, rx, lastNm, early>>
TermInit(r, p, term) ==
  /\ cheld' = [cheld EXCEPT ![p] = term]
  /\ termT' = [termT EXCEPT ![p] = IF term THEN 0 ELSE -1]
  /\ UNCHANGED <<msg, hist, base, ckpt, owner, rb, cpos, gvtSeen, gvtCnt, gvtVals, finiLp, finiQ, votes, stopped, exited, hand, voted, maxDecl, mustVote, announced, net, rx, lastNm, early>>
TermUndo(r, p, keep) ==
  /\ termT' = [termT EXCEPT ![p] = IF keep THEN @ ELSE -1]
  /\ UNCHANGED <<msg, hist, base, ckpt, owner, rb, cpos, cheld, gvtSeen, gvtCnt, gvtVals, finiLp, finiQ, votes, stopped,
                 exited, hand, voted, maxDecl, mustVote, announced, net, rx, lastNm, early>>


(* termination_on_gvt casts the vote of thread r with GVT g *)
Vote(r, g) ==
  /\ votes' = gvtCnt[r]     \* GVT round in which the latest vote was cast
  /\ voted' = [voted EXCEPT ![r] = TRUE]
  /\ mustVote' = [mustVote EXCEPT ![r] = FALSE]
  /\ UNCHANGED <<msg, hist, base, ckpt, owner, rb, cpos, cheld, termT, gvtSeen, gvtCnt, gvtVals, finiLp, finiQ, stopped,
                 exited, hand, maxDecl, announced, net, rx, lastNm, early>>
VoteChecks(r, g, termTime) ==
  << <<g >= termTime \/ \A p \in LpSet : owner[p] = r => HeldCommitted(p, g),
       "C07", "thread voted to terminate although an LP's predicate has not held on a committed state">>,
     <<g >= termTime \/ \A p \in LpSet : owner[p] = r => HeldCommitted(p, g),
       "C01", "thread voted to terminate although an LP's predicate has not held on a committed state (the run can end before the sequential result is reached)">> >>

(* termination_on_ctrl_msg: the end of the run has been announced to this node *)
TermCtrl ==
  /\ announced' = TRUE
  /\ UNCHANGED <<msg, hist, base, ckpt, owner, rb, cpos, cheld, termT, gvtSeen, gvtCnt, gvtVals, finiLp, finiQ, votes, stopped, exited,
                 hand, voted, maxDecl, mustVote, net, rx, lastNm, early>>
\* C08: once every worker thread has voted, the termination must be announced before the next GVT value
Announced(r) == <<((\A q \in Threads : voted[q]) /\ gvtCnt[r] + 1 > votes) => announced, "C08",
               "every thread voted to terminate a full GVT round ago but the end of the run was never announced">>

Stop ==
  /\ stopped' = TRUE
  /\ UNCHANGED <<msg, hist, base, ckpt, owner, rb, cpos, cheld, termT, gvtSeen, gvtCnt, gvtVals, finiLp, finiQ, votes, exited, hand, voted, maxDecl, mustVote, announced, net, rx, lastNm, early>>

LoopExit(r) ==
  /\ exited' = [exited EXCEPT ![r] = TRUE]
  /\ UNCHANGED <<msg, hist, base, ckpt, owner, rb, cpos, cheld, termT, gvtSeen, gvtCnt, gvtVals, finiLp, finiQ, votes, stopped, hand, voted, maxDecl, mustVote, announced, net, rx, lastNm, early>>
NoPendingVote(r) == <<~mustVote[r], "C08", "every LP of the thread has its predicate true on a committed state but the thread did not vote to terminate">>
LastGvt == IF gvtVals = <<>> THEN 0 ELSE gvtVals[Len(gvtVals)]
LoopExitChecks(r, termTime) ==
  << <<stopped \/ LastGvt >= termTime \/ \A p \in LpSet : HeldCommitted(p, LastGvt),
       "C07", "run ends although an LP's predicate has not held on a committed state">>,
     <<HandOf(r) = {} /\ ~rb[r].on, "C08", "thread left the main loop in the middle of an event">> >>

QueueFini(r) ==
  /\ finiQ' = [finiQ EXCEPT ![r] = TRUE]
  /\ UNCHANGED <<msg, hist, base, ckpt, owner, rb, cpos, cheld, termT, gvtSeen, gvtCnt, gvtVals, finiLp, votes, stopped, exited, hand, voted, maxDecl, mustVote, announced, net, rx, lastNm, early>>
\* both flushing GVT rounds of gvt_msg_drain have transferred every inbox into the private heap
QueueFiniChecks(r) ==
  << <<InboxOf(r) = {}, "C11", "inbox not empty at queue teardown (msg_queue_fini walks a freed list)">> >>

LpFini(r, p) ==
  /\ finiLp' = [finiLp EXCEPT ![p] = TRUE]
  /\ UNCHANGED <<msg, hist, base, ckpt, owner, rb, cpos, cheld, termT, gvtSeen, gvtCnt, gvtVals, finiQ, votes, stopped, exited, hand, voted, maxDecl, mustVote, announced, net, rx, lastNm, early>>
LpFiniChecks(r, p) ==
  << <<~finiLp[p], "C08", "LP_FINI invoked twice for an LP">>,
     <<owner[p] = r, "C14", "LP finalised by a thread that does not own it">>,
     <<\A q \in Threads : exited[q], "C08", "LP finalised while a worker is still in the main loop">> >>

----------------------------------------------------------------------------
(* Multi-rank part (src/distributed/mpi.c, gvt.h stamping, process.c remote anti-messages) *)

(* MPI_Isend: a message enters the network *)
NetSend(r, nm, x) ==
  /\ net' = Put(net, nm, x)
  /\ lastNm' = [lastNm EXCEPT ![r] = [nm |-> nm, kind |-> x.kind, id |-> x.id, sq |-> x.sq]]
  /\ UNCHANGED <<msg, hist, base, ckpt, owner, rb, cpos, cheld, termT, gvtSeen, gvtCnt, gvtVals, finiLp, finiQ, votes, stopped, exited,
                 hand, voted, maxDecl, mustVote, announced, rx, early>>
NetSendChecks(r, nm, x) ==
  << <<x.kind = "ctrl" \/ x.t >= gvtSeen[r], "C04", "message sent to another rank below the GVT known to its sender">>,
     <<~(rb[r].on /\ rb[r].restored), "C05", "event emitted to another rank during silent re-execution">> >>

(* MPI_Mrecv: the message leaves the network and is in the hands of thread r until it is inserted *)
NetRecv(r, nm) ==
  /\ net' = Drop(net, nm)
  /\ rx' = [rx EXCEPT ![r] = IF net[nm].kind = "ctrl" THEN NoRx ELSE [net[nm] EXCEPT !.nm = nm]]
  /\ UNCHANGED <<msg, hist, base, ckpt, owner, rb, cpos, cheld, termT, gvtSeen, gvtCnt, gvtVals, finiLp, finiQ, votes, stopped, exited,
                 hand, voted, maxDecl, mustVote, announced, lastNm, early>>
NetRecvChecks(r, nm) ==
  << <<nm \in DOMAIN net, "C06", "a network message was delivered twice or never sent">>,
     <<rx[r].kind = "none", "C06", "a received message was dropped before being inserted">> >>

(* ScheduleNewEvent, remote branch: the sender keeps its buffer as a remote mark in the history *)
SendRemote(r, p, m, c) ==
  /\ hist' = [hist EXCEPT ![p] = Append(@, [k |-> "r", m |-> m, t |-> c.t, ty |-> c.ty, pid |-> c.pid, g |-> NoGhost, pred |-> FALSE])]
  /\ msg' = [msg EXCEPT ![m] = [@ EXCEPT !.lp = c.lp, !.t = c.t, !.ty = c.ty, !.pid = c.pid, !.inq = "none", !.src = p, !.rem = TRUE,
                                           !.nm = lastNm[r].nm, !.sq = lastNm[r].sq, !.flags = lastNm[r].id]]
  /\ UNCHANGED <<base, ckpt, owner, rb, cpos, cheld, termT, gvtSeen, gvtCnt, gvtVals, finiLp, finiQ, votes, stopped, exited,
                 hand, voted, maxDecl, mustVote, announced, net, rx, lastNm, early>>
SendRemoteChecks(r, p, m, c) ==
  << <<Live(m) /\ msg[m].inq = "new", "C06", "remote send of a buffer that is not fresh">>,
     <<lastNm[r].kind = "ev", "C02", "no event was put on the network for a remote send">>,
     <<owner[p] \in {-1, r}, "C14", "LP runs on a thread that does not own it">>,
     <<owner[c.lp] = -1 \/ owner[c.lp] \div 8 # r \div 8, "C14", "event for an LP of this rank was routed to another rank">> >>

(* send_anti_messages, remote branch: an anti-message enters the network, the buffer is released at GVT *)
AntiRemote(r, m) ==
  /\ rb' = [rb EXCEPT ![r].touched = @ \cup {m}]
  /\ msg' = [msg EXCEPT ![m].inq = "atgvt"]
  /\ UNCHANGED <<hist, base, ckpt, owner, cpos, cheld, termT, gvtSeen, gvtCnt, gvtVals, finiLp, finiQ, votes, stopped, exited,
                 hand, voted, maxDecl, mustVote, announced, net, rx, lastNm, early>>
AntiRemoteChecks(r, m) ==
  << <<Live(m) /\ msg[m].rem, "C06", "remote anti-message for a buffer that is not a remote send">>,
     <<rb[r].on /\ ~rb[r].restored, "C06", "remote cancellation outside a rollback">>,
     <<rb[r].on => \E i \in IdxOf(rb[r].lp, "r", m) : i > rb[r].past, "C06", "cancelled a remote message not sent by an undone event">>,
     <<Live(m) => msg[m].inq # "atgvt", "C06", "remote message cancelled twice">>,
     <<lastNm[r].kind = "anti" /\ (Live(m) => lastNm[r].sq = msg[m].sq /\ lastNm[r].id - Low(lastNm[r].id) = msg[m].flags - Low(msg[m].flags)),
       "C06", "the anti-message put on the network does not identify the undone remote send">> >>

(* handle_remote_anti_msg: the cancelled event is not in the history yet: park the anti-message *)
EarlyStore(r, p, am) ==
  /\ early' = [early EXCEPT ![p] = @ \cup {am}]
  /\ hand' = [hand EXCEPT ![r] = 0]
  /\ UNCHANGED <<msg, hist, base, ckpt, owner, rb, cpos, cheld, termT, gvtSeen, gvtCnt, gvtVals, finiLp, finiQ, votes, stopped, exited,
                 voted, maxDecl, mustVote, announced, net, rx, lastNm>>
EarlyStoreChecks(r, p, am) ==
  << <<Live(am) /\ hand[r] = am /\ msg[am].lp = p, "C06", "parked an anti-message that was not just extracted for this LP">>,
     <<Live(am) => ~\E i \in 1..Len(hist[p]) : hist[p][i].k = "e" /\ Live(hist[p][i].m) /\ SameRemote(hist[p][i].m, am),
       "C06", "anti-message parked as early although the event it cancels has been processed">>,
     <<Live(am) => ~\E i \in 1..Len(hist[p]) : hist[p][i].k = "e" /\ Live(hist[p][i].m) /\ Cancels(am, hist[p][i].m),
       "C06", "anti-message parked as early although the event it was sent to cancel has been processed">> >>

(* check_early_anti_messages: the event arrives after its anti-message: both are annihilated *)
EarlyMatch(r, p, m, am) ==
  /\ early' = [early EXCEPT ![p] = @ \ {am}]
  /\ UNCHANGED <<msg, hist, base, ckpt, owner, rb, cpos, cheld, termT, gvtSeen, gvtCnt, gvtVals, finiLp, finiQ, votes, stopped, exited,
                 hand, voted, maxDecl, mustVote, announced, net, rx, lastNm>>
EarlyMatchChecks(r, p, m, am) ==
  << <<am \in early[p], "C06", "matched an anti-message that was not parked at this LP">>,
     <<Live(m) /\ Live(am) /\ hand[r] = m, "C06", "early annihilation of buffers that are not live / not in hand">>,
     <<(Live(m) /\ Live(am)) => SameRemote(m, am), "C06", "an event was annihilated by the anti-message of a different event">>,
     <<(Live(m) /\ Live(am)) => SameRemote(m, am), "C02", "an event was annihilated by the anti-message of a different event">>,
     <<(Live(m) /\ Live(am)) => Cancels(am, m), "C06", "an event was annihilated by an anti-message that was sent to cancel a different event (the identities stamped on remote messages collide)">>,
     <<(Live(m) /\ Live(am)) => Cancels(am, m), "C02", "an event was annihilated by an anti-message that was sent to cancel a different event (the identities stamped on remote messages collide)">> >>

(* handle_remote_anti_msg: the cancelled event was processed: roll back to before it *)
RAntiMatch(r, p, m, am, past) ==
  /\ msg' = [msg EXCEPT ![m].flags = @ + 1]
  /\ UNCHANGED <<hist, base, ckpt, owner, rb, cpos, cheld, termT, gvtSeen, gvtCnt, gvtVals, finiLp, finiQ, votes, stopped, exited,
                 hand, voted, maxDecl, mustVote, announced, net, rx, lastNm, early>>
RAntiMatchChecks(r, p, m, am, past) ==
  << <<Live(m) /\ Live(am) /\ hand[r] = am, "C06", "remote annihilation of buffers that are not live / not in hand">>,
     <<(Live(m) /\ Live(am)) => SameRemote(m, am), "C06", "an event was annihilated by the anti-message of a different event">>,
     <<(Live(m) /\ Live(am)) => SameRemote(m, am), "C02", "an event was annihilated by the anti-message of a different event">>,
     <<(Live(m) /\ Live(am)) => Cancels(am, m), "C06", "an event was annihilated by an anti-message that was sent to cancel a different event (the identities stamped on remote messages collide)">>,
     <<(Live(m) /\ Live(am)) => Cancels(am, m), "C02", "an event was annihilated by an anti-message that was sent to cancel a different event (the identities stamped on remote messages collide)">>,
     <<\E i \in IdxOf(p, "e", m) : i > past, "C06", "the rollback for a remote anti-message does not undo the cancelled event">> >>

FreeAtGvt(r, m) == UNCHANGED vars
FreeAtGvtChecks(r, m) == << <<Live(m) /\ msg[m].inq = "atgvt", "C06", "deferred release of a buffer that was not cancelled remotely">> >>

=============================================================================
