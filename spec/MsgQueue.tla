------------------------------ MODULE MsgQueue ------------------------------
(***************************************************************************)
(* The inter-thread message queue of one consumer thread                   *)
(* (src/datatypes/msg_queue.c): a lock-free LIFO list filled by any number *)
(* of producers (load head; compare-and-swap, retry on failure) and        *)
(* emptied by the owner with one atomic exchange, followed by insertion    *)
(* into its private heap.  Property C15.                                   *)
(***************************************************************************)
EXTENDS Naturals, Integers, Sequences, FiniteSets

CONSTANTS Producers,   \* set of producer ids
          Msgs,        \* set of message ids
          Owner,       \* Owner[m] \in Producers: who inserts m
          Time,        \* Time[m]: timestamp
          Inf

NULL == 0
VARIABLES
  head,      \* the shared list head (NULL or a message)
  nxt,       \* nxt[m]: next pointer of m
  ppc,       \* ppc[p]: "idle" | "loaded"
  cur,       \* cur[p]: message being inserted
  todo,      \* todo[p]: messages still to insert
  heap,      \* private heap of the consumer (set)
  out,       \* sequence of extracted messages
  pushed,    \* set of messages whose insertion completed (CAS succeeded)
  peekPre,   \* messages pushed and not extracted when the pending peek began
  peeking,
  lastPeek

vars == <<head, nxt, ppc, cur, todo, heap, out, pushed, peekPre, peeking, lastPeek>>

Init ==
  /\ head = NULL /\ nxt = [m \in Msgs |-> NULL]
  /\ ppc = [p \in Producers |-> "idle"] /\ cur = [p \in Producers |-> NULL]
  /\ todo = [p \in Producers |-> {m \in Msgs : Owner[m] = p}]
  /\ heap = {} /\ out = <<>> /\ pushed = {} /\ peekPre = {} /\ peeking = FALSE /\ lastPeek = Inf

\* msg->next = load(list)
Load(p) ==
  /\ ppc[p] = "idle" /\ todo[p] # {}
  /\ \E m \in todo[p] :
       /\ cur' = [cur EXCEPT ![p] = m]
       /\ nxt' = [nxt EXCEPT ![m] = head]
       /\ todo' = [todo EXCEPT ![p] = @ \ {m}]
  /\ ppc' = [ppc EXCEPT ![p] = "loaded"]
  /\ UNCHANGED <<head, heap, out, pushed, peekPre, peeking, lastPeek>>

\* compare_exchange_weak(list, &msg->next, msg): success publishes, failure reloads the expected value
Cas(p) ==
  /\ ppc[p] = "loaded"
  /\ LET m == cur[p] IN
     IF head = nxt[m]
     THEN /\ head' = m /\ pushed' = pushed \cup {m}
          /\ ppc' = [ppc EXCEPT ![p] = "idle"] /\ cur' = [cur EXCEPT ![p] = NULL]
          /\ UNCHANGED nxt
     ELSE /\ nxt' = [nxt EXCEPT ![m] = head]
          /\ UNCHANGED <<head, pushed, ppc, cur>>
  /\ UNCHANGED <<todo, heap, out, peekPre, peeking, lastPeek>>

RECURSIVE Chain(_)
Chain(m) == IF m = NULL THEN {} ELSE {m} \cup Chain(nxt[m])
InList == Chain(head)

\* msg_queue_insert_queued: exchange the whole list with NULL, insert every element into the heap
Drain ==
  /\ heap' = heap \cup InList
  /\ head' = NULL
HeapMin(h) == IF h = {} THEN Inf ELSE CHOOSE t \in {Time[m] : m \in h} : \A u \in {Time[m] : m \in h} : t <= u

\* msg_queue_extract: drain, then pop a minimum-time element (NULL when nothing is there)
Extract ==
  /\ ~peeking
  /\ \/ (heap \cup InList = {} /\ UNCHANGED vars)
     \/ \E m \in heap \cup InList :
          /\ Time[m] = HeapMin(heap \cup InList)
          /\ heap' = (heap \cup InList) \ {m} /\ head' = NULL
          /\ out' = Append(out, m)
          /\ UNCHANGED <<nxt, ppc, cur, todo, pushed, peekPre, peeking, lastPeek>>

\* msg_queue_time_peek, split in "begins" and "drains and answers" so that pushes can fall in between
PeekBegin ==
  /\ ~peeking /\ peeking' = TRUE
  /\ peekPre' = pushed \ {out[i] : i \in 1..Len(out)}
  /\ UNCHANGED <<head, nxt, ppc, cur, todo, heap, out, pushed, lastPeek>>
PeekEnd ==
  /\ peeking /\ peeking' = FALSE
  /\ Drain
  /\ lastPeek' = HeapMin(heap \cup InList)
  /\ UNCHANGED <<nxt, ppc, cur, todo, out, pushed, peekPre>>

Next ==
  \/ \E p \in Producers : Load(p) \/ Cas(p)
  \/ PeekBegin \/ PeekEnd \/ Extract
Spec == Init /\ [][Next]_vars

(***************************************************************************)
(* C15                                                                     *)
(***************************************************************************)
Extracted == {out[i] : i \in 1..Len(out)}
\* every completed insertion is in the list, in the heap or extracted; nothing twice
NoLossNoDup ==
  /\ pushed = InList \cup heap \cup Extracted
  /\ InList \cap heap = {} /\ InList \cap Extracted = {} /\ heap \cap Extracted = {}
  /\ \A i, j \in 1..Len(out) : i # j => out[i] # out[j]
\* the list is acyclic and only holds completed insertions
ListSane == InList \subseteq pushed
\* the answer of a peek is a lower bound for everything inserted before it began and not yet extracted
PeekLowerBound == [][PeekEnd => \A m \in peekPre \ Extracted : lastPeek' <= Time[m]]_vars
\* extraction returns a minimum among what was transferred (checked in the action guard); order of out
\* is therefore non-decreasing whenever no insertion arrives in between - stated on the action:
ExtractMinimal == [][\A m \in Msgs : (Len(out') = Len(out) + 1 /\ out'[Len(out')] = m) => \A x \in heap' : Time[m] <= Time[x]]_vars
=============================================================================
