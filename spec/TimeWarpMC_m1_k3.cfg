SPECIFICATION Spec
CONSTANTS ThreadsC = {0, 1}  NLpC = 2  OwnerOf <- M1_Owner  InitEv <- M1_Init  Trans <- M1_Trans  MaxMsg = 16  CkptEvery = 3  MaxGvt = 0  RecordSched = FALSE
INVARIANT NoCheckFails
INVARIANT PoolSufficient
INVARIANT C01_FinalEqualsSequential
INVARIANT C06_NothingLeft
CHECK_DEADLOCK FALSE
