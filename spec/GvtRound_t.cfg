SPECIFICATION FairSpec
CONSTANTS N = 2 MaxT = 3 MaxMsgs = 4 MaxRounds = 2 Inf = 99
INVARIANT NeverBelowSeen
INVARIANT Agreed
INVARIANT CountersSane
PROPERTY NothingBelowGvt
PROPERTY Monotone
CHECK_DEADLOCK FALSE
