----------------------------- MODULE PartitionMC -----------------------------
(* exhaustive evaluation of C14 on the specification for all triples up to the bounds *)
EXTENDS Partition, TLC
CONSTANTS MaxL, MaxN, MaxT
VARIABLE x
Init == x = 0
Next == x' = x
Spec == Init /\ [][Next]_x
AllOk == AllTriples(MaxL, MaxN, MaxT)
=============================================================================
