--------------------------- MODULE TimeWarpMC_m1 ---------------------------
(* micro-model 1: two LPs on two threads; LP1 starts ahead in virtual time (t=3) and sends to LP0; LP0's first event (t=1)
   sends a straggler (t=2) to LP1: straggler rollback, local anti-message before/after processing, re-execution *)
EXTENDS TimeWarpMC
M1_Owner == (0 :> 0) @@ (1 :> 1)
M1_Init == << [src |-> 0, lp |-> 0, t |-> 1, ty |-> 1, pid |-> 0], [src |-> 1, lp |-> 1, t |-> 3, ty |-> 1, pid |-> 0] >>
Snd(off, d, ty) == [off |-> off, delay |-> d, ty |-> ty, pid |-> 0]
M1_Trans == << << [ns |-> 1, sends |-> <<Snd(1, 1, 1)>>] >>,     \* state 0, type 1: forward to the other LP
               << [ns |-> 1, sends |-> <<>>] >> >>               \* state 1: absorb
=============================================================================
