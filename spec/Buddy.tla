------------------------------- MODULE Buddy -------------------------------
(***************************************************************************)
(* One arena of the rollbackable buddy allocator (src/mm/buddy/buddy.c):   *)
(* the array `longest' over a complete binary tree, as pure operators.     *)
(* TotalExp/BlockExp are B_TOTAL_EXP/B_BLOCK_EXP (16/6 in production; the  *)
(* verification build uses small values so that TLC can enumerate every    *)
(* reachable tree).  Node i has children 2i+1, 2i+2; the root has exponent *)
(* TotalExp, leaves BlockExp.                                              *)
(***************************************************************************)
EXTENDS Naturals, Integers, Sequences, FiniteSets

CONSTANTS TotalExp, BlockExp

Depth == TotalExp - BlockExp
Pow2(n) == 2 ^ n
NNodes == Pow2(Depth + 1) - 1
Nodes == 0..(NNodes - 1)
Left(i) == 2 * i + 1
Right(i) == 2 * i + 2
Parent(i) == ((i + 1) \div 2) - 1

RECURSIVE LevelOf(_)
LevelOf(i) == IF i = 0 THEN TotalExp ELSE LevelOf(Parent(i)) - 1
IsLeaf(i) == LevelOf(i) = BlockExp
Max2(a, b) == IF a > b THEN a ELSE b

\* buddy_init
InitLongest == [i \in Nodes |-> LevelOf(i)]

\* offset of the block rooted at node i with exponent e (buddy_malloc: ((i+1) << e) - (1 << TotalExp))
OffsetOf(i, e) == (i + 1) * Pow2(e) - Pow2(TotalExp)

\* buddy_allocation_block_compute: smallest exponent >= BlockExp whose block holds req bytes
RECURSIVE ExpFor(_, _)
ExpFor(req, e) == IF Pow2(e) >= req THEN e ELSE ExpFor(req, e + 1)
BlockExpFor(req) == ExpFor(req, BlockExp)

\* descent of buddy_malloc: i := left child; i += longest[i] < e
RECURSIVE Descend(_, _, _, _)
Descend(lon, i, size, e) ==
  IF size > e
  THEN LET c == Left(i) IN Descend(lon, IF lon[c] < e THEN c + 1 ELSE c, size - 1, e)
  ELSE i

\* upward max-update of buddy_malloc
RECURSIVE UpMax(_, _)
UpMax(lon, i) ==
  IF i = 0 THEN lon
  ELSE LET p == Parent(i) IN UpMax([lon EXCEPT ![p] = Max2(lon[Left(p)], lon[Right(p)])], p)

MallocOk(lon, e) == lon[0] >= e /\ e <= TotalExp
MallocNode(lon, e) == Descend(lon, 0, TotalExp, e)
MallocLon(lon, e) == LET i == MallocNode(lon, e) IN UpMax([lon EXCEPT ![i] = 0], i)
MallocOff(lon, e) == OffsetOf(MallocNode(lon, e), e)

\* buddy_free: leaf of the offset, climb to the first node with longest = 0
LeafOf(off) == off \div Pow2(BlockExp) + Pow2(Depth) - 1
RECURSIVE Climb(_, _, _)
Climb(lon, i, size) == IF lon[i] # 0 /\ i # 0 THEN Climb(lon, Parent(i), size + 1) ELSE <<i, size>>
FreeNode(lon, off) == Climb(lon, LeafOf(off), BlockExp)
\* coalescing: parent = size+1 when both children are entirely free, else max
RECURSIVE UpFree(_, _, _)
UpFree(lon, i, size) ==
  IF i = 0 THEN lon
  ELSE LET p == Parent(i)
           l == lon[Left(p)]
           r == lon[Right(p)] IN
       UpFree([lon EXCEPT ![p] = IF l = size /\ r = size THEN size + 1 ELSE Max2(l, r)], p, size + 1)
FreeLon(lon, off) == LET ns == FreeNode(lon, off) IN UpFree([lon EXCEPT ![ns[1]] = ns[2]], ns[1], ns[2])
FreeSize(lon, off) == Pow2(FreeNode(lon, off)[2])

(***************************************************************************)
(* Meaning of a tree: the set of allocated blocks.  A node with value 0 is *)
(* an allocated block unless both children are 0 as well (then it is a     *)
(* full inner node); below an allocated or entirely free node every value  *)
(* is the node's full exponent.                                            *)
(***************************************************************************)
RECURSIVE BlocksIn(_, _)
BlocksIn(lon, i) ==
  LET e == LevelOf(i) IN
  IF lon[i] = 0
  THEN IF ~IsLeaf(i) /\ lon[Left(i)] = 0 /\ lon[Right(i)] = 0
       THEN BlocksIn(lon, Left(i)) \cup BlocksIn(lon, Right(i))
       ELSE {[off |-> OffsetOf(i, e), exp |-> e]}
  ELSE IF lon[i] = e \/ IsLeaf(i) THEN {}
  ELSE BlocksIn(lon, Left(i)) \cup BlocksIn(lon, Right(i))
Blocks(lon) == BlocksIn(lon, 0)

\* largest free block exponent in the subtree of node i, recomputed from a set of live blocks
Covers(b, i) == \* block b contains the whole range of node i
  LET o == OffsetOf(i, LevelOf(i)) IN b.off <= o /\ o + Pow2(LevelOf(i)) <= b.off + Pow2(b.exp)
Inside(b, i) == \* block b lies inside the range of node i
  LET o == OffsetOf(i, LevelOf(i)) IN o <= b.off /\ b.off + Pow2(b.exp) <= o + Pow2(LevelOf(i))
RECURSIVE TrueLongest(_, _)
TrueLongest(live, i) ==
  IF \E b \in live : Covers(b, i) THEN 0
  ELSE IF ~\E b \in live : Inside(b, i) THEN LevelOf(i)
  ELSE Max2(TrueLongest(live, Left(i)), TrueLongest(live, Right(i)))
\* nodes whose value is meaningful: not strictly below an allocated block
Shadowed(live, i) == \E b \in live : Covers(b, i) /\ ~(OffsetOf(i, LevelOf(i)) = b.off /\ LevelOf(i) = b.exp)
Consistent(lon, live) ==
  /\ Blocks(lon) = live
  /\ \A i \in Nodes : ~Shadowed(live, i) => lon[i] = TrueLongest(live, i)

Disjoint(live) == \A a, b \in live : a # b => (a.off + Pow2(a.exp) <= b.off \/ b.off + Pow2(b.exp) <= a.off)
WellPlaced(b) == b.off >= 0 /\ b.off + Pow2(b.exp) <= Pow2(TotalExp) /\ b.off % Pow2(b.exp) = 0 /\ b.exp >= BlockExp
=============================================================================
