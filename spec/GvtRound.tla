------------------------------ MODULE GvtRound ------------------------------
(***************************************************************************)
(* The shared-memory GVT algorithm of src/gvt/gvt.c on one node, one step  *)
(* per call of gvt_phase_run(): thread phases A..D (two queue peeks) run   *)
(* twice per round, node phases (sent count exchange degenerate on one     *)
(* node, first-arrival minimum reduction, release), round initiation by    *)
(* thread 0 and joining through c_b.  The workload is abstract: a thread   *)
(* extracts a minimum-time message (lowering its accumulator), and may     *)
(* send messages with timestamps not below it to any thread.  Property C04.*)
(***************************************************************************)
EXTENDS Naturals, Integers, FiniteSets, TLC

CONSTANTS N,        \* threads 0..N-1
          MaxT,     \* timestamps 1..MaxT
          MaxMsgs,  \* total number of messages ever created
          MaxRounds,
          Inf

Thr == 0..(N - 1)
VARIABLES
  inbox, heap, hand,   \* per thread: sets of message ids / id in hand (0: none)
  tm,                  \* id -> timestamp
  nmsg,                \* messages created so far
  acc, tph, nph, redp, \* gvt_accumulator, thread_phase, node_phase, reducing_p per thread
  ca, cb, cc, cd, tmr, \* c_a, c_b, c_c, c_d, total_msg_received
  gvtNodes, rounds,    \* a round is open; rounds started
  gmin,                \* *reducing_p after the node reduction
  seen                 \* last GVT handed to each thread (0: none)

vars == <<inbox, heap, hand, tm, nmsg, acc, tph, nph, redp, ca, cb, cc, cd, tmr, gvtNodes, rounds, gmin, seen>>

Min2(a, b) == IF a < b THEN a ELSE b
MinOf(S) == IF S = {} THEN Inf ELSE CHOOSE x \in S : \A y \in S : x <= y
Peek(r) == MinOf({tm[m] : m \in inbox[r] \cup heap[r]})   \* msg_queue_time_peek drains the inbox first

Init ==
  /\ \E k \in 1..Min2(2, MaxMsgs) :   \* one or two initial messages at time 1, on thread 0 / spread
       /\ nmsg = k
       /\ tm = [m \in 1..k |-> 1]
       /\ inbox = [r \in Thr |-> {m \in 1..k : (m - 1) % N = r}]
  /\ heap = [r \in Thr |-> {}] /\ hand = [r \in Thr |-> 0]
  /\ acc = [r \in Thr |-> Inf] /\ tph = [r \in Thr |-> "idle"] /\ nph = [r \in Thr |-> "r1"] /\ redp = [r \in Thr |-> Inf]
  /\ ca = 0 /\ cb = 0 /\ cc = 0 /\ cd = 0 /\ tmr = 0 /\ gvtNodes = 0 /\ rounds = 0 /\ gmin = Inf
  /\ seen = [r \in Thr |-> 0]

(* ---------- workload ---------- *)
\* msg_queue_extract + gvt_on_msg_extraction
Extract(r) ==
  /\ hand[r] = 0 /\ inbox[r] \cup heap[r] # {}
  /\ \E m \in inbox[r] \cup heap[r] :
       /\ tm[m] = Peek(r)
       /\ hand' = [hand EXCEPT ![r] = m]
       /\ heap' = [heap EXCEPT ![r] = (heap[r] \cup inbox[r]) \ {m}]
       /\ inbox' = [inbox EXCEPT ![r] = {}]
       /\ acc' = [acc EXCEPT ![r] = Min2(@, tm[m])]
  /\ UNCHANGED <<tm, nmsg, tph, nph, redp, ca, cb, cc, cd, tmr, gvtNodes, rounds, gmin, seen>>
\* the handler sends a message (timestamp >= the one being processed) to the inbox of any thread
Send(r) ==
  /\ hand[r] # 0 /\ nmsg < MaxMsgs
  /\ \E q \in Thr, t \in tm[hand[r]]..MaxT :
       /\ nmsg' = nmsg + 1
       /\ tm' = [m \in 1..(nmsg + 1) |-> IF m = nmsg + 1 THEN t ELSE tm[m]]
       /\ inbox' = [inbox EXCEPT ![q] = @ \cup {nmsg + 1}]
  /\ UNCHANGED <<heap, hand, acc, tph, nph, redp, ca, cb, cc, cd, tmr, gvtNodes, rounds, gmin, seen>>
Finish(r) ==
  /\ hand[r] # 0
  /\ hand' = [hand EXCEPT ![r] = 0]
  /\ UNCHANGED <<inbox, heap, tm, nmsg, acc, tph, nph, redp, ca, cb, cc, cd, tmr, gvtNodes, rounds, gmin, seen>>

(* ---------- gvt_phase_run: idle part ---------- *)
\* a thread that sees c_b != 0 joins the round (gvt_start_processing)
Join(r) ==
  /\ tph[r] = "idle" /\ hand[r] = 0 /\ cb # 0
  /\ acc' = [acc EXCEPT ![r] = Inf] /\ tph' = [tph EXCEPT ![r] = "A"]
  /\ UNCHANGED <<inbox, heap, hand, tm, nmsg, nph, redp, ca, cb, cc, cd, tmr, gvtNodes, rounds, gmin, seen>>
\* thread 0: timer expired and no round pending: open a round (GVT_START is synchronous without MPI)
Initiate ==
  /\ tph[0] = "idle" /\ hand[0] = 0 /\ cb = 0 /\ gvtNodes = 0 /\ rounds < MaxRounds
  /\ gvtNodes' = 1 /\ rounds' = rounds + 1
  /\ acc' = [acc EXCEPT ![0] = Inf] /\ tph' = [tph EXCEPT ![0] = "A"]
  /\ UNCHANGED <<inbox, heap, hand, tm, nmsg, nph, redp, ca, cb, cc, cd, tmr, gmin, seen>>

(* ---------- gvt_thread_phase_run ---------- *)
InReduction(r) == nph[r] \in {"r1", "r2"} /\ hand[r] = 0
PhaseA(r) ==
  /\ InReduction(r) /\ tph[r] = "A" /\ ca = 0
  /\ acc' = [acc EXCEPT ![r] = Min2(@, Peek(r))]      \* first peek
  /\ tph' = [tph EXCEPT ![r] = "B"] /\ cb' = cb + 1
  /\ UNCHANGED <<inbox, heap, hand, tm, nmsg, nph, redp, ca, cc, cd, tmr, gvtNodes, rounds, gmin, seen>>
PhaseB(r) ==
  /\ InReduction(r) /\ tph[r] = "B" /\ cb = N
  /\ tph' = [tph EXCEPT ![r] = "C"] /\ ca' = ca + 1
  /\ UNCHANGED <<inbox, heap, hand, tm, nmsg, acc, nph, redp, cb, cc, cd, tmr, gvtNodes, rounds, gmin, seen>>
PhaseC(r) ==
  /\ InReduction(r) /\ tph[r] = "C" /\ ca = N
  /\ redp' = [redp EXCEPT ![r] = Min2(acc[r], Peek(r))]   \* second peek
  /\ tph' = [tph EXCEPT ![r] = "D"] /\ cb' = cb - 1
  /\ UNCHANGED <<inbox, heap, hand, tm, nmsg, acc, nph, ca, cc, cd, tmr, gvtNodes, rounds, gmin, seen>>
\* D -> idle returns true to the node phase: first reduction -> sent_reduce, second -> min_reduce; thread_phase = A again
PhaseD(r) ==
  /\ InReduction(r) /\ tph[r] = "D" /\ cb = 0
  /\ ca' = ca - 1
  /\ tph' = [tph EXCEPT ![r] = "A"]
  /\ nph' = [nph EXCEPT ![r] = IF @ = "r1" THEN "sr" ELSE "mr"]
  /\ UNCHANGED <<inbox, heap, hand, tm, nmsg, acc, redp, cb, cc, cd, tmr, gvtNodes, rounds, gmin, seen>>

(* ---------- gvt_node_phase_run (one node) ---------- *)
SentReduce(r) ==
  /\ nph[r] = "sr" /\ hand[r] = 0 /\ ca = 0
  /\ tmr' = tmr + 1 /\ cc' = cc + 1
  \* the last thread performs the (degenerate) sum-scatter and subtracts what must be received + N
  /\ nph' = [nph EXCEPT ![r] = IF cc = N - 1 THEN "srw" ELSE "sw"]
  /\ UNCHANGED <<inbox, heap, hand, tm, nmsg, acc, tph, redp, ca, cb, cd, gvtNodes, rounds, gmin, seen>>
SentReduceWait(r) ==
  /\ nph[r] = "srw" /\ hand[r] = 0
  /\ tmr' = tmr - N /\ nph' = [nph EXCEPT ![r] = "sw"]
  /\ UNCHANGED <<inbox, heap, hand, tm, nmsg, acc, tph, redp, ca, cb, cc, cd, gvtNodes, rounds, gmin, seen>>
SentWait(r) ==
  /\ nph[r] = "sw" /\ hand[r] = 0 /\ tmr = 0
  /\ nph' = [nph EXCEPT ![r] = "r2"]
  /\ UNCHANGED <<inbox, heap, hand, tm, nmsg, acc, tph, redp, ca, cb, cc, cd, tmr, gvtNodes, rounds, gmin, seen>>
MinReduce(r) ==
  /\ nph[r] = "mr" /\ hand[r] = 0
  /\ cd' = cd + 1
  /\ IF cd = 0
     THEN gmin' = MinOf({redp[q] : q \in Thr}) /\ nph' = [nph EXCEPT ![r] = "mrw"]
     ELSE gmin' = gmin /\ nph' = [nph EXCEPT ![r] = "mw"]
  /\ UNCHANGED <<inbox, heap, hand, tm, nmsg, acc, tph, redp, ca, cb, cc, tmr, gvtNodes, rounds, seen>>
\* the value is handed to the consumers of the thread (parallel.c)
MinReduceWait(r) ==
  /\ nph[r] = "mrw" /\ hand[r] = 0 /\ cd = N
  /\ cc' = cc - N /\ nph' = [nph EXCEPT ![r] = "done"] /\ seen' = [seen EXCEPT ![r] = gmin]
  /\ UNCHANGED <<inbox, heap, hand, tm, nmsg, acc, tph, redp, ca, cb, cd, tmr, gvtNodes, rounds, gmin>>
MinWait(r) ==
  /\ nph[r] = "mw" /\ hand[r] = 0 /\ cc = 0
  /\ nph' = [nph EXCEPT ![r] = "done"] /\ seen' = [seen EXCEPT ![r] = gmin]
  /\ UNCHANGED <<inbox, heap, hand, tm, nmsg, acc, tph, redp, ca, cb, cc, cd, tmr, gvtNodes, rounds, gmin>>
NodeDone(r) ==
  /\ nph[r] = "done" /\ hand[r] = 0
  /\ nph' = [nph EXCEPT ![r] = "r1"] /\ tph' = [tph EXCEPT ![r] = "idle"]
  /\ cd' = cd - 1
  /\ gvtNodes' = IF cd = 1 THEN 0 ELSE gvtNodes     \* GVT_DONE
  /\ UNCHANGED <<inbox, heap, hand, tm, nmsg, acc, redp, ca, cb, cc, tmr, rounds, gmin, seen>>

Next ==
  \/ Initiate
  \/ \E r \in Thr : Extract(r) \/ Send(r) \/ Finish(r) \/ Join(r) \/ PhaseA(r) \/ PhaseB(r) \/ PhaseC(r) \/ PhaseD(r)
                    \/ SentReduce(r) \/ SentReduceWait(r) \/ SentWait(r) \/ MinReduce(r) \/ MinReduceWait(r) \/ MinWait(r) \/ NodeDone(r)
Spec == Init /\ [][Next]_vars
FairSpec == Spec /\ WF_vars(Next)

(***************************************************************************)
(* C04                                                                     *)
(***************************************************************************)
AllMsgs == UNION {inbox[r] \cup heap[r] \cup (IF hand[r] = 0 THEN {} ELSE {hand[r]}) : r \in Thr}
\* at the moment a thread is told GVT = g, no message anywhere is below g
NothingBelowGvt == [][\A r \in Thr : seen'[r] # seen[r] => \A m \in AllMsgs : tm[m] >= seen'[r]]_vars
\* ... and it stays so: nothing below the GVT told to a thread is ever extracted by it or pending anywhere
NeverBelowSeen == \A r \in Thr : \A m \in AllMsgs : tm[m] >= seen[r]
Monotone == [][\A r \in Thr : seen'[r] >= seen[r]]_vars
\* all threads are told the same value in a round: while some thread is still in "done"/waiting the values agree
Agreed == \A r, q \in Thr : (nph[r] = "done" /\ nph[q] = "done") => seen[r] = seen[q]
CountersSane == ca \in 0..N /\ cb \in 0..N /\ cc \in 0..N /\ cd \in 0..N /\ tmr \in (0 - N)..N
\* every opened round is completed (liveness of the round itself under fairness)
RoundsComplete == (gvtNodes = 1) ~> (gvtNodes = 0)
=============================================================================
