SPECIFICATION Spec
CONSTANTS ThreadsC = {0, 1}  NLpC = 3  OwnerOf <- M5_Owner  InitEv <- M5_Init  Trans <- M5_Trans  MaxMsg = 16  CkptEvery = 1  MaxGvt = 0  RecordSched = FALSE
INVARIANT NoCheckFails
INVARIANT PoolSufficient
INVARIANT C01_FinalEqualsSequential
INVARIANT C06_NothingLeft
CHECK_DEADLOCK FALSE
