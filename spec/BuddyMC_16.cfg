SPECIFICATION Spec
CONSTANTS TotalExp = 8 BlockExp = 4
INVARIANT TreeConsistent
INVARIANT BlocksValid
INVARIANT FreeReportsSize
INVARIANT Reusable
PROPERTY MallocFresh
CHECK_DEADLOCK FALSE
