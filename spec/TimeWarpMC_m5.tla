--------------------------- MODULE TimeWarpMC_m5 ---------------------------
(* micro-model 5 (a rollback that undoes a send to the LP itself and a send to an LP of the same thread): three LPs on two threads
   (LP0, LP1 on thread 0; LP2 on thread 1).  LP0's event (t=3, state 0) sends a quiet event to ITSELF (t=4) and one to LP1 (t=5, same
   thread: the inbox of the sender's own thread).  LP2's event (t=1) sends a straggler (t=2) to LP0, which changes LP0's state: the
   re-execution of the event at t=3 sends something else (one event to LP1 at t=6), so both cancellations are final.  All timestamps differ: two events with equal content
   for different LPs in one heap are extracted in either order by the specification but in one, heap-shape dependent, order by the code,
   and such behaviours cannot be imposed on the code by scheduling alone (seen with the first version of this model: 16 of 80 behaviours not followed).
   The rollback of LP0 finds, after the entry it returns to, its own send AND possibly the processed self-sent event: the anti-message
   for the self-send meets a message that is in the inbox of the same thread, in its heap, in the history being undone (flagged first,
   re-inserted later in the same walk) or already re-inserted.  The anti-message to LP1 is handled by the thread that sent it. *)
EXTENDS TimeWarpMC
M5_Owner == (0 :> 0) @@ (1 :> 0) @@ (2 :> 1)
M5_Init == << [src |-> 0, lp |-> 0, t |-> 3, ty |-> 1, pid |-> 0], [src |-> 2, lp |-> 2, t |-> 1, ty |-> 2, pid |-> 0] >>
Snd(off, d, ty) == [off |-> off, delay |-> d, ty |-> ty, pid |-> 0]
\* type 1: work (state 0: to itself with delay 1 and to the next LP with delay 2; state 1: to the next LP with delay 3), type 2: kick (quiet event to the next LP,
\* delay 1), type 3: quiet (state becomes 1)
M5_Trans == << << [ns |-> 0, sends |-> <<Snd(0, 1, 3), Snd(1, 2, 3)>>], [ns |-> 0, sends |-> <<Snd(1, 1, 3)>>], [ns |-> 1, sends |-> <<>>] >>,
               << [ns |-> 1, sends |-> <<Snd(1, 3, 3)>>],              [ns |-> 1, sends |-> <<Snd(1, 1, 3)>>], [ns |-> 1, sends |-> <<>>] >> >>
\* reachability probes (expected to be violated)
\* the rollback of LP0 begins while the event it sent to itself is already in its history (processed)
Probe_NoRollbackOverProcessedSelfSend ==
  \A r \in ThreadsC : ~(pc[r] = "rbbegin" /\ loc[r].lp = 0 /\ \E i \in 1..Len(hist[0]) : hist[0][i].k = "e" /\ hist[0][i].t = 4)
\* the rollback of LP0 begins while LP1 (same thread) has already processed the event that is about to be cancelled
Probe_NoCascadeInSameThread ==
  \A r \in ThreadsC : ~(pc[r] = "rbbegin" /\ loc[r].lp = 1)
=============================================================================
