SPECIFICATION Spec
CONSTANTS Producers = {1,2,3} Msgs = {1,2,3,4} Owner <- MCOwner3 Time <- MCTime3 Inf = 1000
INVARIANT NoLossNoDup
INVARIANT ListSane
PROPERTY PeekLowerBound
PROPERTY ExtractMinimal
CHECK_DEADLOCK FALSE
