------------------------------ MODULE GvtTrace ------------------------------
(***************************************************************************)
(* Conformance of the GVT machinery of the real code to GvtRound / GvtDist *)
(* (reference layer: every difference is COUNTED, none is a verdict - the  *)
(* verdict on C04 is the check of every published value against the        *)
(* reconstructed pending set in TimeWarpTrace).                            *)
(*                                                                         *)
(* From a system trace only the lines of the queue (Push, Extract) and of  *)
(* the GVT protocol (GvtStart, TPhase, NPhase, Gvt) are used.  Per thread  *)
(* the accumulator is reconstructed as the specification defines it        *)
(* (Inf at gvt_start_processing, minimum with every extracted timestamp),  *)
(* the queue as the set of inserted and not yet extracted messages, the    *)
(* phase counters c_a / c_b per rank from the logged transitions.  Counted:*)
(*   value  - the accumulator logged at phase B / the local minimum logged *)
(*            at phase D differs from min(accumulator, queue minimum)      *)
(*            (GvtRound!PhaseA, PhaseC).  The queue minimum is read at the *)
(*            inbox exchange inside msg_queue_time_peek, which is not a    *)
(*            trace line of its own: it lies between the thread's previous *)
(*            line and the phase line, and insertions by other threads may *)
(*            fall in between; the logged value must lie between the two   *)
(*            corresponding minima;                                        *)
(*   guard  - a thread-phase transition was logged while the guard of the  *)
(*            corresponding action of GvtRound is false (c_a, c_b);        *)
(*   result - the value handed to a thread differs from the minimum of the *)
(*            local minima of the second reduction of all threads (ranks). *)
(***************************************************************************)
EXTENDS Naturals, Integers, Sequences, FiniteSets, TLC, Json, IOUtils

TraceLog == ndJsonDeserialize(IOEnv.TRACE)
Inf == 1073741824

VARIABLES l,
          thrs,    \* threads seen so far
          pend,    \* thread -> set of <<message id, timestamp>> inserted into its queue and not yet extracted
          snap,    \* thread -> pend[thread] as it was at the last trace line of that thread
          acc,     \* thread -> reconstructed gvt_accumulator
          tph,     \* thread -> last logged thread phase
          red,     \* thread -> number of thread reductions completed in the current round (0, 1, 2)
          lmin,    \* thread -> local minimum logged in the second reduction of the current round (-1: none)
          ca, cb,  \* rank -> reconstructed c_a, c_b
          div      \* [value, guard, result] counters

vars == <<l, thrs, pend, snap, acc, tph, red, lmin, ca, cb, div>>
Line == TraceLog[l]
RankOf(t) == t \div 8
Min2(a, b) == IF a < b THEN a ELSE b
MinOf(S) == IF S = {} THEN Inf ELSE CHOOSE x \in S : \A y \in S : x <= y
Get(f, k, d) == IF k \in DOMAIN f THEN f[k] ELSE d
Put(f, k, v) == [x \in (DOMAIN f) \cup {k} |-> IF x = k THEN v ELSE f[x]]
Peek(t) == MinOf({p[2] : p \in Get(pend, t, {})})
NThr(rk) == Cardinality({t \in thrs : RankOf(t) = rk})
Bump(what, cond) == IF cond THEN div ELSE [div EXCEPT ![what] = @ + 1]

Init ==
  /\ l = 1 /\ thrs = {} /\ pend = <<>> /\ snap = <<>> /\ acc = <<>> /\ tph = <<>> /\ red = <<>> /\ lmin = <<>> /\ ca = <<>> /\ cb = <<>>
  /\ div = [value |-> 0, guard |-> 0, result |-> 0]
  /\ TLCSet(1, 0) /\ TLCSet(3, div)

Is(e) == l <= Len(TraceLog) /\ Line.e = e /\ l' = l + 1
Thr == Line.thr

TReset ==
  /\ Is("Reset")
  /\ thrs' = {} /\ pend' = <<>> /\ acc' = <<>> /\ tph' = <<>> /\ red' = <<>> /\ lmin' = <<>> /\ ca' = <<>> /\ cb' = <<>> /\ UNCHANGED div
\* worker threads announce themselves at the barriers of their set-up
TSeen ==
  /\ Is("BarArrive") /\ thrs' = thrs \cup {Thr}
  /\ UNCHANGED <<pend, acc, tph, red, lmin, ca, cb, div>>
TPush ==
  /\ Is("Push")
  /\ pend' = Put(pend, Line.q, Get(pend, Line.q, {}) \cup {<<Line.m, Line.t>>})
  /\ UNCHANGED <<thrs, acc, tph, red, lmin, ca, cb, div>>
\* msg_queue_extract + gvt_on_msg_extraction
TExtract ==
  /\ Is("Extract")
  /\ LET mine == {p \in Get(pend, Thr, {}) : p[1] = Line.m}
         t == IF mine = {} THEN Inf ELSE (CHOOSE p \in mine : TRUE)[2] IN
     /\ pend' = Put(pend, Thr, Get(pend, Thr, {}) \ mine)
     /\ acc' = Put(acc, Thr, Min2(Get(acc, Thr, Inf), t))
  /\ UNCHANGED <<thrs, tph, red, lmin, ca, cb, div>>
\* gvt_start_processing
TStart ==
  /\ Is("GvtStart")
  /\ acc' = Put(acc, Thr, Inf) /\ tph' = Put(tph, Thr, "A") /\ red' = Put(red, Thr, 0) /\ lmin' = Put(lmin, Thr, -1)
  /\ UNCHANGED <<thrs, pend, ca, cb, div>>
\* gvt_thread_phase_run: the transition is logged right after it happened
TPhase ==
  /\ Is("TPhase")
  /\ LET rk == RankOf(Thr)
         n == NThr(rk)
         a == Get(ca, rk, 0)
         b == Get(cb, rk, 0)
         lo == Min2(Get(acc, Thr, Inf), Peek(Thr))
         hi == Min2(Get(acc, Thr, Inf), MinOf({p[2] : p \in Get(snap, Thr, {})}))
         inrange == lo <= Line.val /\ Line.val <= hi IN
     CASE Line.to = "B" ->
            /\ div' = [Bump("guard", a = 0) EXCEPT !.value = @ + (IF inrange THEN 0 ELSE 1)]
            /\ acc' = Put(acc, Thr, Line.val) /\ cb' = Put(cb, rk, b + 1) /\ UNCHANGED <<ca, red, lmin>>
       [] Line.to = "C" ->
            /\ div' = Bump("guard", b = n)
            /\ ca' = Put(ca, rk, a + 1) /\ UNCHANGED <<acc, cb, red, lmin>>
       [] Line.to = "D" ->
            /\ div' = [Bump("guard", a = n) EXCEPT !.value = @ + (IF inrange THEN 0 ELSE 1)]
            /\ cb' = Put(cb, rk, b - 1)
            /\ lmin' = IF Get(red, Thr, 0) = 1 THEN Put(lmin, Thr, Line.val) ELSE lmin
            /\ UNCHANGED <<acc, ca, red>>
       [] Line.to = "idle" ->
            /\ div' = Bump("guard", b = 0)
            /\ ca' = Put(ca, rk, a - 1) /\ red' = Put(red, Thr, Get(red, Thr, 0) + 1) /\ UNCHANGED <<acc, cb, lmin>>
       [] OTHER -> UNCHANGED <<acc, ca, cb, red, lmin, div>>
  /\ tph' = Put(tph, Thr, Line.to)
  /\ UNCHANGED <<thrs, pend>>
\* the value handed to the consumers of a thread: the minimum of the local minima of the second reduction of every thread of every rank
TGvt ==
  /\ Is("Gvt")
  /\ LET known == {t \in DOMAIN lmin : lmin[t] >= 0} IN
     div' = Bump("result", known = {} \/ Line.val = MinOf({lmin[t] : t \in known}))
  /\ UNCHANGED <<thrs, pend, acc, tph, red, lmin, ca, cb>>
TOther ==
  /\ l <= Len(TraceLog) /\ Line.e \notin {"Reset", "BarArrive", "Push", "Extract", "GvtStart", "TPhase", "Gvt"}
  /\ l' = l + 1 /\ UNCHANGED <<thrs, pend, acc, tph, red, lmin, ca, cb, div>>

\* after every line of a thread its view of its own queue is remembered
Step == (TReset \/ TSeen \/ TPush \/ TExtract \/ TStart \/ TPhase \/ TGvt \/ TOther)
        /\ snap' = IF Line.e = "Reset" THEN <<>> ELSE IF Line.thr >= 0 THEN Put(snap, Line.thr, Get(pend', Line.thr, {})) ELSE snap
Next == Step
Spec == Init /\ [][Next]_vars
Progress == TLCSet(1, IF l > TLCGet(1) THEN l ELSE TLCGet(1)) /\ TLCSet(3, div)
Post == PrintT(<<"RESULT", TLCGet(1) - 1, Len(TraceLog), <<>>>>) /\ PrintT(<<"GVTDIV", TLCGet(3).value, TLCGet(3).guard, TLCGet(3).result>>)
=============================================================================
