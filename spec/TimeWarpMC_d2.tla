--------------------------- MODULE TimeWarpMC_d2 ---------------------------
(* distributed micro-model 2 (lib/gen_model.py micro("d2") is the same model for the real code): 3 LPs over 2 ranks as the
   runtime partitions them: rank 0 = threads 0 (LP0) and 1 (LP1), rank 1 = thread 8 (LP2).  LP2 runs ahead (work at t=3)
   and sends an absorb event to LP1 (t=4); LP0's kick (t=1) sends a work event (t=2) to LP2: a straggler.  LP2 rolls back and
   cancels its send over the network, re-executes (work at t=2 sends absorb t=3 to LP1; work at t=3 now does nothing).  The two
   threads of rank 0 race on the network: the anti-message can be inserted before the event it cancels (received by the
   other thread but not yet inserted): early anti-message; or after the event was processed: rollback of LP1 *)
EXTENDS TimeWarpMC
D2_Owner == (0 :> 0) @@ (1 :> 1) @@ (2 :> 8)
D2_Init == << [src |-> 0, lp |-> 0, t |-> 1, ty |-> 2, pid |-> 0], [src |-> 2, lp |-> 2, t |-> 3, ty |-> 1, pid |-> 0] >>
Snd(off, d, ty) == [off |-> off, delay |-> d, ty |-> ty, pid |-> 0]
\* types: 1 = work (state 0: send an absorb event to LP me+2), 2 = kick (send a work event to LP me+2), 3 = absorb
D2_Trans == << << [ns |-> 1, sends |-> <<Snd(2, 1, 3)>>], [ns |-> 1, sends |-> <<Snd(2, 1, 1)>>], [ns |-> 0, sends |-> <<>>] >>,
               << [ns |-> 1, sends |-> <<>>],            [ns |-> 1, sends |-> <<>>],            [ns |-> 1, sends |-> <<>>] >> >>
=============================================================================
