------------------------------ MODULE BuddyMC ------------------------------
(***************************************************************************)
(* Exhaustive exploration of one buddy arena: every sequence of malloc and *)
(* free, hence every reachable tree.  Property C12 (single arena part):    *)
(* blocks returned are inside the arena, aligned, large enough, disjoint   *)
(* from every live block; the tree bookkeeping always equals the largest   *)
(* free block recomputed from the live set; freeing makes space reusable   *)
(* (malloc fails only when no aligned free block of that size exists).     *)
(***************************************************************************)
EXTENDS Buddy, TLC

VARIABLES lon, live
vars == <<lon, live>>

Init == lon = InitLongest /\ live = {}

Malloc(e) ==
  /\ MallocOk(lon, e)
  /\ lon' = MallocLon(lon, e)
  /\ live' = live \cup {[off |-> MallocOff(lon, e), exp |-> e]}
MallocFails(e) == ~MallocOk(lon, e) /\ UNCHANGED vars
Free(b) ==
  /\ b \in live
  /\ lon' = FreeLon(lon, b.off)
  /\ live' = live \ {b}

Next == (\E e \in BlockExp..TotalExp : Malloc(e) \/ MallocFails(e)) \/ (\E b \in live : Free(b))
Spec == Init /\ [][Next]_vars

TreeConsistent == Consistent(lon, live)
BlocksValid == Disjoint(live) /\ \A b \in live : WellPlaced(b)
\* the block handed out is new, of the requested size, and free() reports that size
MallocFresh == [][\A e \in BlockExp..TotalExp : Malloc(e) =>
                    LET b == [off |-> MallocOff(lon, e), exp |-> e] IN b \notin live /\ Disjoint(live \cup {b})]_vars
FreeReportsSize == \A b \in live : FreeSize(lon, b.off) = Pow2(b.exp)
\* completeness: malloc(e) succeeds iff an aligned free block of exponent e exists
Reusable == \A e \in BlockExp..TotalExp : MallocOk(lon, e) <=> TrueLongest(live, 0) >= e
=============================================================================
