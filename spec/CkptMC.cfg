INIT Init
NEXT Next
CONSTANTS TotalExp = 6 BlockExp = 4 H0 = 16 HA = 48 MaxArenas = 2 MaxLogs = 2 MaxH = 4 Tags = {1}
INVARIANT SizeExact
INVARIANT SnapSizes
INVARIANT RefsIncrease
INVARIANT ArenasOk
INVARIANT Restorable
PROPERTY FossilRebased
PROPERTY RestoreExact
CHECK_DEADLOCK FALSE
