---------------------------- MODULE GvtShutdown ----------------------------
(***************************************************************************)
(* The end of a run on one node: GvtRound (the shared-memory GVT rounds)   *)
(* extended with the termination votes and the teardown sequence of        *)
(* parallel.c / gvt_msg_drain (gvt.c):                                     *)
(*                                                                         *)
(*   main loop:  while(termination_cant_end()) { batch; gvt_phase_run(); } *)
(*   vote:       termination_on_gvt, when a thread is told a GVT           *)
(*   drain:      while(thread_phase != idle) gvt_phase_run();   (flush)    *)
(*               sync_thread_barrier();                          (bar)     *)
(*               twice: gvt_timer = 0; while(!gvt_phase_run()) ; (fl1,fl2) *)
(*                                                                         *)
(* A thread waiting in the barrier does not call gvt_phase_run(): it can   *)
(* neither join a round (c_b) nor open one.  Property C08 (every run       *)
(* returns): under weak fairness all threads reach "out".                  *)
(*                                                                         *)
(* TLC REFUTES the property for this design: the counterexample is the     *)
(* known finding D9 (a round opened - or not yet joined - when the last    *)
(* vote arrives is never completed, because threads already in the barrier *)
(* never join it).  The configuration is run as an EXPECTED violation: it  *)
(* documents that the deadlock observed in the real code is a property of  *)
(* the protocol, not of one schedule.  With RetestBeforeInitiate = TRUE    *)
(* (thread 0 re-tests termination before opening a round, the candidate    *)
(* small fix) the property is still refuted (a round opened BEFORE the     *)
(* last vote that an idle thread has not joined yet): a repair has to let  *)
(* threads in the barrier keep joining rounds.                             *)
(***************************************************************************)
EXTENDS GvtRound

CONSTANTS RetestBeforeInitiate,
          VoteAt     \* thr -> the thread votes when it is told the GVT of this round (or a later one) while in the main loop

VARIABLES mode,    \* thr -> "loop" | "flush" | "bar" | "fl1" | "fl2" | "out"
          voted    \* thr -> has cast its (irrevocable) vote

svars == <<vars, mode, voted>>
Ended == \A r \in Thr : voted[r]     \* thr_to_end = 0 -> nodes_to_end = 0 (control message synchronous without MPI)

SInit == Init /\ mode = [r \in Thr |-> "loop"] /\ voted = [r \in Thr |-> FALSE]

\* which parts of gvt_phase_run / the workload a thread can execute in its mode
InLoop(r) == mode[r] = "loop"
RunsGvt(r) == mode[r] \in {"loop", "flush", "fl1", "fl2"}
CanStartOrJoin(r) == mode[r] \in {"loop", "fl1", "fl2"}

Work(r) == InLoop(r) /\ (Extract(r) \/ Send(r) \/ Finish(r)) /\ UNCHANGED <<mode, voted>>
GvtStep(r) ==
  /\ RunsGvt(r)
  /\ \/ PhaseA(r) \/ PhaseB(r) \/ PhaseC(r) \/ PhaseD(r)
     \/ SentReduce(r) \/ SentReduceWait(r) \/ SentWait(r) \/ MinReduce(r) \/ NodeDone(r)
  /\ UNCHANGED <<mode, voted>>
\* the step that hands the GVT to the thread: in a flushing round it ends that round of gvt_msg_drain
Told(r) ==
  /\ RunsGvt(r)
  /\ (MinReduceWait(r) \/ MinWait(r))
  /\ mode' = [mode EXCEPT ![r] = IF @ = "fl1" THEN "fl2" ELSE IF @ = "fl2" THEN "out" ELSE @]
  \* termination_on_gvt: the (irrevocable) vote
  /\ voted' = [voted EXCEPT ![r] = @ \/ (mode[r] = "loop" /\ rounds >= VoteAt[r])]
JoinS(r) == CanStartOrJoin(r) /\ Join(r) /\ UNCHANGED <<mode, voted>>
InitiateS ==
  /\ CanStartOrJoin(0)
  /\ (RetestBeforeInitiate /\ mode[0] = "loop" => ~Ended)
  /\ Initiate
  /\ UNCHANGED <<mode, voted>>
\* loop top: termination_cant_end() is false: worker_thread_fini -> gvt_msg_drain
LoopExit(r) ==
  /\ InLoop(r) /\ hand[r] = 0 /\ Ended
  /\ mode' = [mode EXCEPT ![r] = IF tph[r] = "idle" THEN "bar" ELSE "flush"]
  /\ UNCHANGED <<vars, voted>>
\* the partial round has been flushed
FlushDone(r) ==
  /\ mode[r] = "flush" /\ tph[r] = "idle"
  /\ mode' = [mode EXCEPT ![r] = "bar"]
  /\ UNCHANGED <<vars, voted>>
\* sync_thread_barrier: all arrive, all leave into the first flushing round
Barrier ==
  /\ \A r \in Thr : mode[r] = "bar"
  /\ mode' = [r \in Thr |-> "fl1"]
  /\ UNCHANGED <<vars, voted>>

SNext ==
  \/ InitiateS \/ Barrier
  \/ \E r \in Thr : Work(r) \/ GvtStep(r) \/ Told(r) \/ JoinS(r) \/ LoopExit(r) \/ FlushDone(r)
SSpec == SInit /\ [][SNext]_svars
SFairSpec == SSpec /\ WF_svars(SNext) /\ WF_svars(InitiateS) /\ \A r \in Thr : WF_svars(LoopExit(r)) /\ WF_svars(GvtStep(r) \/ Told(r) \/ JoinS(r))

VoteAtQ == [r \in Thr |-> 1]
VoteAtLate == [r \in Thr |-> IF r = N - 1 THEN 2 ELSE 1]
\* C08: every run returns
AllReturn == <>(\A r \in Thr : mode[r] = "out")
\* safety still holds during the teardown
SafeDuringTeardown == NeverBelowSeen
=============================================================================
