SPECIFICATION FairSpec
CONSTANTS N = 3 MaxT = 2 MaxMsgs = 3 MaxRounds = 1 Inf = 99
INVARIANT NeverBelowSeen
INVARIANT Agreed
INVARIANT CountersSane
PROPERTY NothingBelowGvt
PROPERTY Monotone
CHECK_DEADLOCK FALSE
