SPECIFICATION TSpec
CONSTANTS TotalExp = 8 BlockExp = 4 H0 = 16 HA = 48
CONSTRAINT Progress
POSTCONDITION Post
CHECK_DEADLOCK FALSE
