--------------------------- MODULE PartitionTrace ---------------------------
(***************************************************************************)
(* C14 bound to the code: harness/partdrv.c evaluates the real             *)
(* lp_global_init(), partition_start, lid_to_nid, lid_to_rid for every     *)
(* (L, N, T) triple and every rank, one trace line per (triple, rank).     *)
(* Each line is checked (a) against the invariants of C14 stated on the    *)
(* dumped tables themselves and (b) against the Partition specification.   *)
(***************************************************************************)
EXTENDS Partition, TLC, Json, IOUtils

TraceLog == ndJsonDeserialize(IOEnv.TRACE)
VARIABLES l, bad
Line == TraceLog[l]

Checks(x) ==
  LET L == x.L  N == x.N  T == x.T  k == x.nid  first == x.first  cnt == x.cnt  t == x.thr IN
  << <<first = NodeFirst(k, L, N) /\ cnt = NodeCount(k, L, N), "ranges of the ranks are not contiguous/covering or disagree with the specification">>,
     <<\A lp \in 0..(L - 1) : x.nidof[lp + 1] = NidOf(lp, L, N), "lid_to_nid differs from the specification">>,
     <<\A lp \in 0..(L - 1) : (x.nidof[lp + 1] = k) = (lp >= first /\ lp < first + cnt), "routing to a rank disagrees with the rank's ownership range">>,
     <<t = Clamp(T, cnt), "thread count not clamped to the number of hosted LPs">>,
     <<cnt > 0 => (x.tf[1] = first /\ x.te[t] = first + cnt /\ \A r \in 1..(t - 1) : x.te[r] = x.tf[r + 1]), "thread ranges are not contiguous/covering">>,
     <<cnt > 0 => \A r \in 1..t : x.tf[r] < x.te[r], "a thread is left without LPs although the rank hosts at least as many LPs as threads">>,
     <<cnt > 0 => \A i \in 1..cnt : LET lp == first + i - 1  r == x.ridof[i] IN r >= 0 /\ r < t /\ x.tf[r + 1] <= lp /\ lp < x.te[r + 1],
       "lid_to_rid routes an LP to a thread that does not own it">>,
     <<cnt > 0 => \A r \in 1..t : x.tf[r] = ThreadFirst(r - 1, first, cnt, t), "thread ranges differ from the specification">> >>

TInit == l = 1 /\ bad = <<>> /\ TLCSet(1, 0) /\ TLCSet(2, <<>>)
TRow ==
  /\ l <= Len(TraceLog) /\ bad = <<>> /\ Line.e = "Part"
  /\ l' = l + 1
  /\ LET f == SelectSeq(Checks(Line), LAMBDA c : ~c[1]) IN
       bad' = [i \in 1..Len(f) |-> [p |-> "C14", w |-> f[i][2], at |-> l]]
TSpec == TInit /\ [][TRow]_<<l, bad>>
Progress == TLCSet(1, IF l > TLCGet(1) THEN l ELSE TLCGet(1)) /\ (bad # <<>> => TLCSet(2, bad))
Post == PrintT(<<"RESULT", TLCGet(1) - 1, Len(TraceLog), TLCGet(2)>>)
=============================================================================
