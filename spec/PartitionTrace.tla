--------------------------- MODULE PartitionTrace ---------------------------
(***************************************************************************)
(* C14 bound to the code: harness/partdrv.c runs the real lp_global_init, *)
(* lp_init and lp_fini for every (L, N, T) triple, every rank and every    *)
(* worker, one trace line per (triple, rank): the range the rank claims,   *)
(* the range each worker claims, what an outside observer saw (which       *)
(* worker dispatched LP_INIT / LP_FINI of which LP: field obs), and the    *)
(* tables of the routing functions lid_to_nid / lid_to_rid.                *)
(*                                                                         *)
(* Verdict layer: C14 stated on the dumped tables themselves (it does not  *)
(* prescribe a particular distribution).  Reference layer: equality with   *)
(* the formulas of Partition.tla (on which TLC proves C14 for every triple *)
(* of PartitionMC): differences are counted as divergences, never alarms.  *)
(***************************************************************************)
EXTENDS Partition, TLC, Json, IOUtils

TraceLog == ndJsonDeserialize(IOEnv.TRACE)
VARIABLES l, bad, prevEnd, div
Line == TraceLog[l]

Checks(x) ==
  LET L == x.L  N == x.N  T == x.T  k == x.nid  first == x.first  cnt == x.cnt  t == x.thr IN
  << <<(k = 0 => first = 0) /\ (k > 0 => first = prevEnd) /\ (k = N - 1 => first + cnt = L) /\ cnt >= 0,
       "ranges of the ranks are not contiguous or do not cover all LP identifiers">>,
     <<\A lp \in 0..(L - 1) : (x.nidof[lp + 1] = k) = (lp >= first /\ lp < first + cnt), "routing to a rank disagrees with the rank's ownership range">>,
     <<\A lp \in 0..(L - 1) : x.nidof[lp + 1] >= 0 /\ x.nidof[lp + 1] < N, "an LP is routed to a rank that does not exist">>,
     <<cnt > 0 => t >= 1, "a rank that hosts LPs runs no worker">>,
     <<cnt > 0 => (x.tf[1] = first /\ x.te[t] = first + cnt /\ \A r \in 1..(t - 1) : x.te[r] = x.tf[r + 1]), "thread ranges are not contiguous/covering">>,
     <<cnt >= t => \A r \in 1..t : x.tf[r] < x.te[r], "a thread is left without LPs although the rank hosts at least as many LPs as threads">>,
     <<cnt > 0 => \A i \in 1..cnt : LET lp == first + i - 1  r == x.ridof[i] IN r >= 0 /\ r < t /\ x.tf[r + 1] <= lp /\ lp < x.te[r + 1],
       "lid_to_rid routes an LP to a thread that does not own it">>,
     <<x.obs = 1, "the LPs a worker initialises/finalises are not exactly its ownership range, each once">> >>

\* reference layer: the code computes the same tables as the specification
RefDiffs(x) ==
  LET L == x.L  N == x.N  T == x.T  k == x.nid  first == x.first  cnt == x.cnt  t == x.thr IN
  (IF first = NodeFirst(k, L, N) /\ cnt = NodeCount(k, L, N) THEN 0 ELSE 1)
  + (IF \A lp \in 0..(L - 1) : x.nidof[lp + 1] = NidOf(lp, L, N) THEN 0 ELSE 1)
  + (IF t = Clamp(T, cnt) THEN 0 ELSE 1)
  + (IF cnt > 0 /\ t = Clamp(T, cnt) /\ first = NodeFirst(k, L, N) /\ cnt = NodeCount(k, L, N) /\ ~(\A r \in 1..t : x.tf[r] = ThreadFirst(r - 1, first, cnt, t)) THEN 1 ELSE 0)

TInit == l = 1 /\ bad = <<>> /\ prevEnd = 0 /\ div = 0 /\ TLCSet(1, 0) /\ TLCSet(2, <<>>) /\ TLCSet(3, 0)
TRow ==
  /\ l <= Len(TraceLog) /\ bad = <<>> /\ Line.e = "Part"
  /\ l' = l + 1
  /\ prevEnd' = Line.first + Line.cnt
  /\ div' = div + RefDiffs(Line)
  /\ LET f == SelectSeq(Checks(Line), LAMBDA c : ~c[1]) IN
       bad' = [i \in 1..Len(f) |-> [p |-> "C14", w |-> f[i][2], at |-> l]]
\* routing at scale (one rank, LP counts beyond 2^28): the routing function of the code at an ascending sample of identifiers that
\* contains the first and the last one
BigChecks(x) ==
  LET n == Len(x.rid) IN
  << <<\A i \in 1..n : x.rid[i] >= 0 /\ x.rid[i] < x.T, "lid_to_rid routes an LP to a thread that does not exist (large LP count)">>,
     <<\A i \in 1..(n - 1) : x.rid[i] <= x.rid[i + 1], "lid_to_rid is not monotone: ownership ranges are not contiguous (large LP count)">>,
     <<x.rid[1] = 0 /\ x.rid[n] = x.T - 1, "the first/last LP is not routed to the first/last thread: a thread is left without LPs (large LP count)">> >>
TBig ==
  /\ l <= Len(TraceLog) /\ bad = <<>> /\ Line.e = "PartBig"
  /\ l' = l + 1 /\ UNCHANGED <<prevEnd, div>>
  /\ LET f == SelectSeq(BigChecks(Line), LAMBDA c : ~c[1]) IN
       bad' = [i \in 1..Len(f) |-> [p |-> "C14", w |-> f[i][2], at |-> l]]
TSpec == TInit /\ [][TRow \/ TBig]_<<l, bad, prevEnd, div>>
Progress == TLCSet(1, IF l > TLCGet(1) THEN l ELSE TLCGet(1)) /\ (bad # <<>> => TLCSet(2, bad)) /\ TLCSet(3, div)
Post == PrintT(<<"RESULT", TLCGet(1) - 1, Len(TraceLog), TLCGet(2)>>) /\ PrintT(<<"DIVERGENCES", TLCGet(3)>>)
=============================================================================
