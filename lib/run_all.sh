#!/bin/bash
# run_all.sh <tier> [ids...]: run the registered checks one after the other, summary on stdout
TIER=${1:-quick}; shift
IDS=${@:-C01 C02 C03 C04 C05 C06 C07 C08 C09 C10 C11 C12 C13 C14 C15 C16 C17 C18 C19 C20}
cd "$(dirname "$0")/.."
for id in $IDS; do
  s=$(date +%s)
  out=$(./check $id $TIER 2>&1); rc=$?
  e=$(( $(date +%s) - s ))
  echo "== $id rc=$rc ${e}s"
  echo "$out" | grep -E "VIOLATION|MACHINERY|KNOWN-FINDING|Traceback|Error" | cut -c1-300 | head -5
done
