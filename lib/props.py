"""Per-property checks (see DESIGN.md section 6)."""
import json, os, random, shutil, time
import vlib, syscamp


def _models(tier, seed, fams, nq, nt, size_q="small", size_t="small"):
    n = nq if tier == "quick" else nt
    out = []
    for i in range(n):
        f = fams[i % len(fams)]
        sz = size_q if tier == "quick" else size_t
        if ":" in f:
            f, sz = f.split(":")
        out.append((f, seed * 100 + i, sz))
    return out


def check_C01(tier, seed):
    c = syscamp.Campaign("C01", tier, seed, own_ids=["C01"])
    try:
        c.build()
        models = _models(tier, seed, ["mixed", "ties", "zerodelay", "fanout", "mixed", "single"], 8, 40)
        c.run(models, 5 if tier == "quick" else 12)
        return c.finish()
    finally:
        c.close()


def replay(pid, path):
    """re-validate a stored replay directory: the trace against the specification"""
    meta = json.load(open(os.path.join(path, "replay.json")))
    tr = [f for f in os.listdir(path) if f.startswith("par_")]
    if not tr:
        print("nothing to replay")
        return 2
    v = vlib.validate_trace("TimeWarpTrace.tla", "TimeWarpTrace.cfg", os.path.join(path, tr[0]),
                            ref=os.path.join(path, "serial.ndjson"))
    print(json.dumps(v.get("res")))
    if v["verdict"] == "bad":
        print("VIOLATION property=%s replay=%s" % (v["res"]["bad"][0]["p"], path))
        return 1
    return 0 if v["verdict"] == "ok" else 2


def _sys(pid, tier, seed, own, fams, nq, nt, cq, ct, emphasis=None, size_q="small", size_t="small", fixed=None):
    c = syscamp.Campaign(pid, tier, seed, own_ids=own)
    try:
        c.build()
        c.run(_models(tier, seed, fams, nq, nt, size_q, size_t), cq if tier == "quick" else ct, emphasis=emphasis,
              fixed_cfgs=fixed)
        return c.finish()
    finally:
        c.close()


def check_C01(tier, seed):
    return _sys("C01", tier, seed, ["C01", "C03"], ["mixed", "ties", "zerodelay", "fanout", "mixed", "single"], 8, 40, 5, 12)


def check_C03(tier, seed):
    em = lambda r: {"batch": r.choice([1, 1, 2]), "period": r.choice([0, 0, 30]),
                    "term": r.choice([0, 0, 0, 4, 9]), "stop_at": r.choice([0, 0, 0, 0, r.randrange(200, 3000)])}
    return _sys("C03", tier, seed, ["C03"], ["mixed", "fanout", "ties", "zerodelay"], 6, 30, 6, 12, em, "small", "medium")


def check_C04(tier, seed):
    em = lambda r: {"batch": r.choice([1, 1, 1, 2]), "period": r.choice([0, 0, 0, 20]), "threads": r.choice([2, 2, 3, 3, 4])}
    return _sys("C04", tier, seed, ["C04"], ["mixed", "fanout", "zerodelay", "ties"], 6, 30, 6, 14, em, "small", "medium")


def check_C05(tier, seed):
    em = lambda r: {"ckpt": r.choice([0, 1, 2, 3, 5, 7, 11]), "switch": r.choice(["1/8", "1/24", "1/96", "1/300"]),
                    "threads": r.choice([2, 3, 4])}
    return _sys("C05", tier, seed, ["C05"], ["mixed", "fanout", "ties", "zerodelay"], 6, 30, 6, 14, em)


def check_C06(tier, seed):
    em = lambda r: {"switch": r.choice(["1/2", "1/8", "1/24", "1/96"]), "threads": r.choice([2, 3, 4, 6])}
    return _sys("C06", tier, seed, ["C06"], ["fanout", "mixed", "fanout", "zerodelay", "ties"], 6, 30, 6, 14, em)


def _mc(spec, cfg, workers=8, timeout=1200, heap="8g"):
    r = vlib.tlc(spec, cfg, workers=workers, timeout=timeout, heap=heap, extra=["-noGenerateSpecTE"])
    return r


def check_C07(tier, seed):
    t0 = time.time()
    c = syscamp.Campaign("C07", tier, seed, own_ids=["C07"])
    try:
        c.build()
        extra = {}
        # (a) exhaustive model checking of the termination accounting against every legal environment
        mc = _mc("Termination.tla", "Termination.cfg" if tier == "quick" else "Termination_big.cfg", timeout=1500)
        extra["mc_termination"] = {"states": mc["states"], "distinct": mc["distinct"], "depth": mc["depth"],
                                   "violated": mc["violated"], "error": mc["error"],
                                   "bounds": "2 LPs, timestamps 0..2, <=3 valid events per LP (quick); 3 LPs/0..3 (thorough)"}
        if mc["violated"]:
            c.violations.append({"property": "C07", "what": "TLC: invariant %s of Termination.tla violated (design level)" % mc["violated"],
                                 "line": 0, "cfg": {}, "model": ("Termination.tla", 0), "trace": None, "md": {}})
        elif mc["error"] or mc["timeout"] or not mc["distinct"]:
            c.machinery.append({"property": "C07", "what": "Termination.tla model checking failed: %s" % (mc["error"] or "timeout")})
        # (b) the real termination.c driven through legal environment sequences, validated by TLC
        tr = os.path.join(c.scr, "term.ndjson")
        nseq, ln = (700, 14) if tier == "quick" else (6000, 18)
        rc, out = vlib.sh([os.path.join(c.bdir, "termdrv"), tr, str(seed), str(nseq), str(ln)], timeout=120)
        v = vlib.validate_trace("TerminationTrace.tla", "TerminationTrace.cfg", tr, timeout=1500)
        c.stats["states"] += v["distinct"] + mc["distinct"]
        c.stats["serial_traces"] += nseq
        extra["driver_sequences"] = nseq
        extra["driver_lines_validated"] = v["res"]["reached"] if v.get("res") else 0
        import re as _re
        m = _re.search(r'"DIVERGENCES",\s*(\d+)', v["out"])
        extra["conformance_divergences"] = int(m.group(1)) if m else -1
        if v["verdict"] == "bad":
            b = v["res"]["bad"][0]
            lines = open(tr).read().split("\n")
            i = b["at"] - 1
            j = i
            while j > 0 and '"Reset"' not in lines[j]:
                j -= 1
            seq = lines[j:i + 1]
            c.violations.append({"property": "C07", "what": b["w"] + " | sequence: " + " ".join(seq)[:900], "line": b["at"],
                                 "cfg": {"driver": "termdrv", "seed": seed}, "model": ("termdrv", seed), "trace": tr, "md": {}})
        elif v["verdict"] != "ok":
            c.machinery.append({"property": "C07", "what": "termination driver trace: %s %s" % (v["verdict"], json.dumps(v.get("res")))})
        else:
            c.samples.append({"driver": "termdrv", "first_sequence": open(tr).read().split("\n")[:12]})
        # (c) whole-system runs
        em = lambda r: {"batch": r.choice([1, 2, 64]), "period": r.choice([0, 0, 40])}
        c.run(_models(tier, seed, ["nonmono", "time0:medium", "initdone", "mixed", "nonmono", "time0:medium", "sparse"], 8, 36),
              5 if tier == "quick" else 12, emphasis=em)
        return c.finish(extra_cov=extra)
    finally:
        c.close()


def check_C08(tier, seed):
    em = lambda r: {"policy": r.choice([0, 1, 1, 2]), "stop_at": r.choice([0, 0, r.randrange(50, 4000)]),
                    "period": r.choice([0, 0, 0, 100]), "term": r.choice([0, 0, 5])}
    return _sys("C08", tier, seed, ["C08"], ["mixed", "sparse", "single", "fanout", "initdone", "nonmono"], 8, 36, 5, 12, em)


def check_C09(tier, seed):
    fixed = [{"threads": t, "ckpt": k, "batch": b, "period": p, "sseed": 7 + t * 13 + k, "switch": sw, "policy": 0}
             for (t, k, b, p, sw) in [(1, 0, 64, 400, "1/4"), (2, 1, 1, 0, "1/2"), (3, 3, 2, 0, "1/24"), (4, 7, 1, 50, "1/8"),
                                      (6, 2, 4, 0, "1/96"), (2, 0, 1, 0, "1/1")]]
    return _sys("C09", tier, seed, ["C09", "C01", "C03", "C05"], ["mixed", "fanout", "ties", "zerodelay"], 5, 24, 1, 6,
                None, fixed=fixed)


def check_C13(tier, seed):
    em = lambda r: {"ckpt": r.choice([1, 2, 3, 4, 6]), "batch": 1, "period": 0, "switch": r.choice(["1/8", "1/24", "1/96"]),
                    "threads": r.choice([2, 3, 4])}
    return _sys("C13", tier, seed, ["C13"], ["mixed", "fanout", "zerodelay"], 6, 30, 6, 14, em, "small", "medium")


def check_C10(tier, seed):
    """serial runtime = reference semantics: every serial trace must be a behaviour of SeqSim"""
    import gen_model
    t0 = time.time()
    scr = vlib.scratch()
    try:
        bdir = vlib.build(os.path.join(scr, "build"))
        fams = list(gen_model.FAMILIES)
        n = 16 if tier == "quick" else 90
        jobs = []
        for i in range(n):
            fam = fams[i % len(fams)]
            size = "small" if (tier == "quick" or i % 3) else "medium"
            for mode in (["never"], ["pred"], ["term", 3 + i % 7]):
                jobs.append((fam, seed * 1000 + i, size, mode))

        def one(j):
            fam, ms, size, mode = j
            d = os.path.join(scr, "m_%s_%d_%s" % (fam, ms, mode[0]))
            os.makedirs(d, exist_ok=True)
            m = gen_model.gen(ms, fam, size)
            if mode[0] == "term":
                m["termtime"] = mode[1]
            open(os.path.join(d, "model.txt"), "w").write(gen_model.to_txt(m))
            json.dump(m, open(os.path.join(d, "model.json"), "w"))
            tr = os.path.join(d, "serial.ndjson")
            args = ["--model", os.path.join(d, "model.txt"), "--out", tr, "--serial", "--gvt-period", "0"]
            if mode[0] == "never":
                args.append("--never-end")
            if mode[0] == "term":
                args += ["--term-time", mode[1]]
            rc, out = syscamp.run_twh(bdir, args)
            if rc != 0:
                return {"job": j, "verdict": "machinery", "why": "twh rc=%d %s" % (rc, out[-200:]), "trace": tr}
            v = vlib.validate_trace("SeqSimTrace.tla", "SeqSimTrace.cfg", tr, model=os.path.join(d, "model.json"))
            return {"job": j, "verdict": v["verdict"], "v": v, "trace": tr, "model": os.path.join(d, "model.json"),
                    "lines": v["res"]["total"] if v.get("res") else 0, "reached": v["res"]["reached"] if v.get("res") else 0}

        res = vlib.pmap(one, jobs)
        states = sum(r["v"]["distinct"] for r in res if "v" in r)
        viol = [r for r in res if r["verdict"] in ("rejected", "invariant", "bad")]
        mach = [r for r in res if r["verdict"] == "machinery"]
        rc = 0
        for k, r in enumerate(viol[:3]):
            line = ""
            try:
                line = open(r["trace"]).read().split("\n")[r["reached"]]
            except Exception:
                pass
            rp = vlib.save_replay("C10", "v%d" % (k + 1), [r["trace"], r.get("model")],
                                  {"property": "C10", "job": r["job"], "rejected_at_line": r["reached"] + 1, "line": line,
                                   "invariant": r["v"].get("violated")})
            print("VIOLATION property=C10 replay=%s  (serial trace is not a behaviour of SeqSim: longest accepted prefix %d of %d lines; next line %s)"
                  % (rp, r["reached"], r["lines"], line[:200]))
            rc = 1
        if mach and rc == 0:
            print("MACHINERY-FAILURE", json.dumps(mach[0].get("why"))[:400])
            rc = 2
        ok = [r for r in res if r["verdict"] == "ok"]
        cov = {"states": max(1, states), "transitions": max(1, states), "traces_validated_against_impl": len(res),
               "samples": [{"model": "%s/%d/%s" % (r["job"][0], r["job"][1], r["job"][2]), "mode": r["job"][3], "lines": r["lines"]}
                           for r in ok[:3]] or [{"note": "none accepted"}],
               "evaluations": len(res), "distinct_nontrivial": len(set((r["job"][0], r["job"][1], tuple(r["job"][3])) for r in ok)),
               "rule": "generated models of every family x stop mode (run to exhaustion / stop by predicates / stop after a termination time); "
                       "distinct by (model, mode); every line of the serial engine's dispatch log must be a SeqSim step",
               "trace_lines_validated": sum(r.get("reached", 0) for r in res), "exhaustive": False}
        vlib.write_evidence("C10", tier, seed, "model_checking", cov, time.time() - t0, violations=len(viol),
                            assumptions=["the table-driven interpreter logs faithfully what the dispatcher handed to it",
                                         "library draws are taken from the log (their values are an input of SeqSim)"])
        return rc
    finally:
        if not os.environ.get("VERIF_KEEP"):
            shutil.rmtree(scr, ignore_errors=True)
