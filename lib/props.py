"""Per-property checks (see DESIGN.md section 6)."""
import json, os, random, shutil, time
import vlib, syscamp


def _models(tier, seed, fams, nq, nt, size_q="small", size_t="small"):
    n = nq if tier == "quick" else nt
    out = []
    for i in range(n):
        out.append((fams[i % len(fams)], seed * 100 + i, size_q if tier == "quick" else size_t))
    return out


def check_C01(tier, seed):
    c = syscamp.Campaign("C01", tier, seed, own_ids=["C01"])
    try:
        c.build()
        models = _models(tier, seed, ["mixed", "ties", "zerodelay", "fanout", "mixed", "single"], 8, 40)
        c.run(models, 5 if tier == "quick" else 12)
        return c.finish()
    finally:
        c.close()


def replay(pid, path):
    """re-validate a stored replay directory: the trace against the specification"""
    meta = json.load(open(os.path.join(path, "replay.json")))
    tr = [f for f in os.listdir(path) if f.startswith("par_")]
    if not tr:
        print("nothing to replay")
        return 2
    v = vlib.validate_trace("TimeWarpTrace.tla", "TimeWarpTrace.cfg", os.path.join(path, tr[0]),
                            ref=os.path.join(path, "serial.ndjson"))
    print(json.dumps(v.get("res")))
    if v["verdict"] == "bad":
        print("VIOLATION property=%s replay=%s" % (v["res"]["bad"][0]["p"], path))
        return 1
    return 0 if v["verdict"] == "ok" else 2
