"""Per-property checks (see DESIGN.md section 6)."""
import json, os, random, shutil, time
import vlib, syscamp


def _models(tier, seed, fams, nq, nt, size_q="small", size_t="small"):
    n = nq if tier == "quick" else nt
    out = []
    for i in range(n):
        f = fams[i % len(fams)]
        sz = size_q if tier == "quick" else size_t
        if ":" in f:
            f, sz = f.split(":")
        out.append((f, seed * 100 + i, sz))
    return out


def check_C01(tier, seed):
    c = syscamp.Campaign("C01", tier, seed, own_ids=["C01"])
    try:
        c.build()
        models = _models(tier, seed, ["mixed", "ties", "zerodelay", "fanout", "mixed", "single"], 8, 40)
        c.run(models, 5 if tier == "quick" else 12)
        return c.finish()
    finally:
        c.close()


def replay(pid, path):
    """re-validate a stored replay directory: the trace against the specification"""
    meta = json.load(open(os.path.join(path, "replay.json")))
    tr = [f for f in os.listdir(path) if f.startswith("par_")]
    if not tr:
        print("nothing to replay")
        return 2
    v = vlib.validate_trace("TimeWarpTrace.tla", "TimeWarpTrace.cfg", os.path.join(path, tr[0]),
                            ref=os.path.join(path, "serial.ndjson"))
    print(json.dumps(v.get("res")))
    if v["verdict"] == "bad":
        print("VIOLATION property=%s replay=%s" % (v["res"]["bad"][0]["p"], path))
        return 1
    return 0 if v["verdict"] == "ok" else 2


def _sys(pid, tier, seed, own, fams, nq, nt, cq, ct, emphasis=None, size_q="small", size_t="small", fixed=None):
    c = syscamp.Campaign(pid, tier, seed, own_ids=own)
    try:
        c.build()
        c.run(_models(tier, seed, fams, nq, nt, size_q, size_t), cq if tier == "quick" else ct, emphasis=emphasis,
              fixed_cfgs=fixed)
        return c.finish()
    finally:
        c.close()


def check_C01(tier, seed):
    return _sys("C01", tier, seed, ["C01", "C03"], ["mixed", "ties", "zerodelay", "fanout", "mixed", "single"], 8, 40, 5, 12)


def check_C03(tier, seed):
    em = lambda r: {"batch": r.choice([1, 1, 2]), "period": r.choice([0, 0, 30]),
                    "term": r.choice([0, 0, 0, 4, 9]), "stop_at": r.choice([0, 0, 0, 0, r.randrange(200, 3000)])}
    return _sys("C03", tier, seed, ["C03"], ["mixed", "fanout", "ties", "zerodelay"], 6, 30, 6, 12, em, "small", "medium")


def check_C04(tier, seed):
    em = lambda r: {"batch": r.choice([1, 1, 1, 2]), "period": r.choice([0, 0, 0, 20]), "threads": r.choice([2, 2, 3, 3, 4])}
    return _sys("C04", tier, seed, ["C04"], ["mixed", "fanout", "zerodelay", "ties"], 6, 30, 6, 14, em, "small", "medium")


def check_C05(tier, seed):
    em = lambda r: {"ckpt": r.choice([0, 1, 2, 3, 5, 7, 11]), "switch": r.choice(["1/8", "1/24", "1/96", "1/300"]),
                    "threads": r.choice([2, 3, 4])}
    return _sys("C05", tier, seed, ["C05"], ["mixed", "fanout", "ties", "zerodelay"], 6, 30, 6, 14, em)


def check_C06(tier, seed):
    em = lambda r: {"switch": r.choice(["1/2", "1/8", "1/24", "1/96"]), "threads": r.choice([2, 3, 4, 6])}
    return _sys("C06", tier, seed, ["C06"], ["fanout", "mixed", "fanout", "zerodelay", "ties"], 6, 30, 6, 14, em)


def check_C07(tier, seed):
    em = lambda r: {"batch": r.choice([1, 2, 64]), "period": r.choice([0, 0, 40])}
    return _sys("C07", tier, seed, ["C07"], ["nonmono", "time0:medium", "initdone", "mixed", "nonmono", "time0:medium", "sparse"], 8, 36, 5, 12, em)


def check_C08(tier, seed):
    em = lambda r: {"policy": r.choice([0, 1, 1, 2]), "stop_at": r.choice([0, 0, r.randrange(50, 4000)]),
                    "period": r.choice([0, 0, 0, 100]), "term": r.choice([0, 0, 5])}
    return _sys("C08", tier, seed, ["C08"], ["mixed", "sparse", "single", "fanout", "initdone", "nonmono"], 8, 36, 5, 12, em)


def check_C09(tier, seed):
    fixed = [{"threads": t, "ckpt": k, "batch": b, "period": p, "sseed": 7 + t * 13 + k, "switch": sw, "policy": 0}
             for (t, k, b, p, sw) in [(1, 0, 64, 400, "1/4"), (2, 1, 1, 0, "1/2"), (3, 3, 2, 0, "1/24"), (4, 7, 1, 50, "1/8"),
                                      (6, 2, 4, 0, "1/96"), (2, 0, 1, 0, "1/1")]]
    return _sys("C09", tier, seed, ["C09", "C01", "C03", "C05"], ["mixed", "fanout", "ties", "zerodelay"], 5, 24, 1, 6,
                None, fixed=fixed)


def check_C13(tier, seed):
    em = lambda r: {"ckpt": r.choice([1, 2, 3, 4, 6]), "batch": 1, "period": 0, "switch": r.choice(["1/8", "1/24", "1/96"]),
                    "threads": r.choice([2, 3, 4])}
    return _sys("C13", tier, seed, ["C13"], ["mixed", "fanout", "zerodelay"], 6, 30, 6, 14, em, "small", "medium")
