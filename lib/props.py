"""Per-property checks (see DESIGN.md section 6)."""
import json, os, random, shutil, time
import vlib, syscamp


def _models(tier, seed, fams, nq, nt, size_q="small", size_t="small"):
    n = nq if tier == "quick" else nt
    out = []
    for i in range(n):
        f = fams[i % len(fams)]
        sz = size_q if tier == "quick" else size_t
        if ":" in f:
            f, sz = f.split(":")
        out.append((f, seed * 100 + i, sz))
    return out


def check_C01(tier, seed):
    c = syscamp.Campaign("C01", tier, seed, own_ids=["C01"])
    try:
        c.build()
        models = _models(tier, seed, ["mixed", "ties", "zerodelay", "fanout", "mixed", "single"], 8, 40)
        c.run(models, 5 if tier == "quick" else 12)
        return c.finish()
    finally:
        c.close()


def replay(pid, path):
    """re-validate a stored replay directory: the trace against the specification"""
    path = os.path.abspath(path)
    meta = json.load(open(os.path.join(path, "replay.json")))
    tr = [f for f in os.listdir(path) if f.startswith("par_")]
    if not tr:
        print("nothing to replay")
        return 2
    v = vlib.validate_trace("TimeWarpTrace.tla", "TimeWarpTrace.cfg", os.path.join(path, tr[0]), model=os.path.join(path, "model.json"),
                            ref=os.path.join(path, "serial.ndjson"))
    print(json.dumps(v.get("res")))
    if v["verdict"] == "bad":
        print("VIOLATION property=%s replay=%s" % (v["res"]["bad"][0]["p"], path))
        return 1
    return 0 if v["verdict"] == "ok" else 2


MC_NOTE = ("every interleaving of the shared accesses (inbox CAS push, inbox exchange, the three fetch_add on the flag word) of two worker threads, "
           "with the control flow of process_msg/do_rollback transcribed from process.c, on micro-model %s with a checkpoint every %d events: all "
           "action checks, C01 at quiescence, C06 nothing left")


def _tw_mc(c, tier, which):
    """exhaustive TLC runs of TimeWarpMC on micro-models; `which`: list of (module, cfg, model name, k)"""
    for (mod, cfg, name, k) in which:
        c.mc_phase(mod, cfg, MC_NOTE % (name, k), workers=8, timeout=1500, heap="8g")


MCD_NOTE = ("TimeWarpMC on distributed micro-model %s: the ranks' threads, the network (per sender-thread FIFO, any thread of the destination rank "
            "receives) and the remote paths of process.c/mpi.c (remote send with identity stamping, remote anti-message, early anti-message list, "
            "rollback for a remote anti-message) transcribed; every interleaving; checkpoint every %d events; C01/C02/C06 at quiescence")
DIST_PROBES = [("Probe_NoRemoteAntiRollback", "a remote anti-message arrives after its event was processed (rollback)"),
               ("Probe_NoEarlyAnti", "a remote anti-message is parked as early"),
               ("Probe_NoEarlyAntiWhileEventInFlight", "a remote anti-message overtakes the event it cancels (event still in another receiver's hands)")]


def _tw_mc_dist(c, tier):
    """exhaustive TLC runs of the multi-rank micro-models + proof that the interesting scenarios are reachable in them"""
    c.mc_phase("TimeWarpMC_d1.tla", "TimeWarpMC_d1_k1.cfg", MCD_NOTE % ("d1 (2 ranks x 1 thread, 2 LPs)", 1), workers=8, timeout=1500, heap="8g")
    c.probe_phase("TimeWarpMC_d1.tla", "TimeWarpMC_d1_k1.cfg", DIST_PROBES[:2], workers=4, timeout=600, heap="4g")
    if tier == "thorough":
        c.mc_phase("TimeWarpMC_d1.tla", "TimeWarpMC_d1_k2.cfg", MCD_NOTE % ("d1", 2), workers=8, timeout=1500, heap="8g")
        c.mc_phase("TimeWarpMC_d2.tla", "TimeWarpMC_d2_k1.cfg", MCD_NOTE % ("d2 (rank 0: 1 thread, rank 1: 2 threads racing on the network, 3 LPs)", 1),
                   workers=16, timeout=3000, heap="16g")
        c.probe_phase("TimeWarpMC_d2.tla", "TimeWarpMC_d2_k1.cfg", DIST_PROBES, workers=8, timeout=900, heap="8g")
        c.mc_phase("TimeWarpMC_d1.tla", "TimeWarpMC_d1_g1.cfg", "d1 with an abstract GVT (one value) + fossil collection + release of the buffers of cancelled remote sends "
                   "once the GVT has passed them (msg_allocator_on_gvt)", workers=16, timeout=3000, heap="16g")


def _replay(c, tier, dist=False, exhaustive_m1=True):
    """behaviours of TimeWarpMC imposed on the real code (spec -> code direction of the binding)"""
    if tier == "quick":
        c.replay_phase("m1", "TimeWarpMC_m1.tla", "TimeWarpMC_m1_k1.cfg", 160, sim_num=60)
        if dist:
            c.replay_phase("d1", "TimeWarpMC_d1.tla", "TimeWarpMC_d1_k1.cfg", 80, ranks=2, threads=1, sim_num=40)
            c.replay_phase("d2", "TimeWarpMC_d2.tla", "TimeWarpMC_d2_k1.cfg", 80, ranks=2, threads=2, sim_num=40)
    else:
        # every behaviour of m1 (all orders of the shared accesses of the two threads)
        if exhaustive_m1:
            c.replay_phase("m1", "TimeWarpMC_m1.tla", "TimeWarpMC_m1_k1.cfg", 200000, exhaustive=True)
        else:
            c.replay_phase("m1", "TimeWarpMC_m1.tla", "TimeWarpMC_m1_k1.cfg", 8000, sim_num=3000)
        c.replay_phase("m2", "TimeWarpMC_m2.tla", "TimeWarpMC_m2_k1.cfg", 6000, sim_num=2500)
        if dist:
            c.replay_phase("d1", "TimeWarpMC_d1.tla", "TimeWarpMC_d1_k1.cfg", 6000, ranks=2, threads=1, sim_num=2500)
            c.replay_phase("d2", "TimeWarpMC_d2.tla", "TimeWarpMC_d2_k1.cfg", 6000, ranks=2, threads=2, sim_num=2500)


def _sys(pid, tier, seed, own, fams, nq, nt, cq, ct, emphasis=None, size_q="small", size_t="small", fixed=None, mc=None, replay=False, real=0):
    c = syscamp.Campaign(pid, tier, seed, own_ids=own)
    try:
        c.build()
        if mc:
            _tw_mc(c, tier, mc[0] if tier == "quick" else mc[0] + mc[1])
        if replay:
            _replay(c, tier)
        if pid == "C01":
            # a premature termination vote ends the run before the sequential result is reached
            _term_phase(c, os.path.join(c.scr, "term.ndjson"), seed, 4000 if tier == "quick" else 30000, 16 if tier == "quick" else 20, {})
        if real:
            c.real_phase(_models(tier, seed + 80, ["mixed", "fanout", "ties", "zerodelay"], 2, 8, "medium", "medium"), real if tier == "quick" else real * 8)
        c.run(_models(tier, seed, fams, nq, nt, size_q, size_t), cq if tier == "quick" else ct, emphasis=emphasis,
              fixed_cfgs=fixed)
        return c.finish()
    finally:
        c.close()


def check_C01(tier, seed):
    mc = ([("TimeWarpMC_m1.tla", "TimeWarpMC_m1_k1.cfg", "m1 (2 LPs, straggler + anti before/after processing)", 1),
           ("TimeWarpMC_m1.tla", "TimeWarpMC_m1_k3.cfg", "m1", 3)],
          [("TimeWarpMC_m3.tla", "TimeWarpMC_m3_k1.cfg", "m3 (3 LPs on 3 threads: straggler against a history entry cancelled in place)", 1),
           ("TimeWarpMC_m2.tla", "TimeWarpMC_m2_k1.cfg", "m2 (3 LPs, cascade of depth 2, zero-delay tie)", 1),
           ("TimeWarpMC_m2.tla", "TimeWarpMC_m2_k3.cfg", "m2", 3),
           ("TimeWarpMC_m5.tla", "TimeWarpMC_m5_k1.cfg", "m5 (3 LPs on 2 threads: rollback over a self-send and a same-thread send, different re-execution)", 1),
           ("TimeWarpMC_m5.tla", "TimeWarpMC_m5_g2.cfg", "m5 + abstract GVT (two values) + fossil collection", 1)])
    return _sys("C01", tier, seed, ["C01", "C03"], ["mixed", "ties", "zerodelay", "fanout", "chain", "single", "relay", "chain"], 8, 40, 5, 12, mc=mc, replay=True, real=10)


MCG_NOTE = ("TimeWarpMC with an abstract GVT (any safe lower bound, same value for every thread of a round, two values) and fossil collection "
            "transcribed from fossil.c/multi.c, micro-model m1, checkpoint every %d events: every interleaving; committed entries compared with the sequential "
            "history when released, rollbacks after fossil collection exact")


def check_C03(tier, seed):
    em = lambda r: {"batch": r.choice([1, 1, 2]), "period": r.choice([0, 0, 30]),
                    "term": r.choice([0, 0, 0, 4, 9]), "stop_at": r.choice([0, 0, 0, 0, r.randrange(200, 3000)])}
    mc = ([("TimeWarpMC_m1.tla", "TimeWarpMC_m1_g2.cfg", "m1+GVT", 2)], [("TimeWarpMC_m1.tla", "TimeWarpMC_m1_g1.cfg", "m1+GVT", 1)])
    return _sys("C03", tier, seed, ["C03"], ["mixed", "fanout", "ties", "zerodelay", "relay"], 6, 30, 6, 12, em, "small", "medium", mc=mc)


DIST_EM = lambda r: {"ranks": r.choice([2, 2, 3]), "threads": r.choice([1, 2, 2]), "net": r.choice([0, 0, 1]),
                     "batch": r.choice([1, 1, 2]), "period": r.choice([0, 0, 30])}


def _sys_dist(pid, tier, seed, own, fams, nq, nt, cq, ct, emphasis, dq, dt, size_q="small", size_t="small"):
    """single-node campaign followed by a multi-rank campaign (fake MPI) for properties with a distributed part"""
    c = syscamp.Campaign(pid, tier, seed, own_ids=own)
    try:
        c.build(dist=True)
        c.run(_models(tier, seed, fams, nq, nt, size_q, size_t), cq if tier == "quick" else ct, emphasis=emphasis)
        c.run(_models(tier, seed + 50, fams, max(2, nq // 2), max(4, nt // 2), size_q, size_t), dq if tier == "quick" else dt, emphasis=DIST_EM)
        return c.finish()
    finally:
        c.close()


def check_C04(tier, seed):
    em = lambda r: {"batch": r.choice([1, 1, 1, 2]), "period": r.choice([0, 0, 0, 20]), "threads": r.choice([2, 2, 3, 3, 4]),
                    "skew": r.choice([0, 30, 150, 600]), "skewp": r.choice(["tphase", "drain", "drain", "nphase"])}
    c = syscamp.Campaign("C04", tier, seed, own_ids=["C04"])
    c.gvt_conformance = True
    try:
        c.build(dist=True)
        # the two-level GVT algorithm of gvt.c itself, exhaustively (abstract workload)
        c.mc_phase("GvtRound.tla", "GvtRound_q.cfg", "2 threads, 3 messages, 1 round: every interleaving of thread phases A-D (run twice), node phases, "
                   "round initiation/joining with extraction and sends; safety + round completion under fairness", workers=8, timeout=900)
        c.mc_phase("GvtRound.tla", "GvtRound_6.cfg", "2 threads, 6 messages with equal timestamps, 1 round (the budget needed to expose an accumulator that "
                   "misses extractions)", workers=16, timeout=900, heap="8g")
        # the distributed part (colours, per-colour message counting, reduce-scatter of sent counts, wait, all-reduce), one worker per rank
        c.mc_phase("GvtDist.tla", "GvtDist_q.cfg", "GvtDist: 2 ranks, 3 messages (local and remote sends), 1 round: every interleaving of the node phases of gvt.c with "
                   "extractions, sends, deliveries of messages and of GVT_START/GVT_DONE; safety, agreement, monotonicity, exact drain of the old colour, round "
                   "completion under fairness", workers=8, timeout=900, heap="8g")
        if tier == "thorough":
            c.mc_phase("GvtDist.tla", "GvtDist_t.cfg", "GvtDist: 2 ranks, 4 messages, 2 consecutive rounds (both colours)", workers=16, timeout=3600, heap="16g")
            c.mc_phase("GvtDist.tla", "GvtDist_3.cfg", "GvtDist: 3 ranks, 3 messages, 1 round", workers=16, timeout=3600, heap="16g")
            c.mc_phase("GvtRound.tla", "GvtRound_t.cfg", "2 threads, 4 messages, timestamps 1..3, 2 consecutive rounds", workers=16, timeout=1800, heap="8g")
            c.mc_phase("GvtRound.tla", "GvtRound_3.cfg", "3 threads, 3 messages, 1 round", workers=16, timeout=1800, heap="8g")
        c.run(_models(tier, seed, ["mixed", "fanout", "zerodelay", "ties"], 3, 24, "small", "medium"), 4 if tier == "quick" else 12, emphasis=em)
        # rollback cascades that outlast a GVT round: one anti-message per hop walking through the LPs of two threads
        cem = lambda r: {"period": 0, "skew": r.choice([0, 0, 100, 300]), "ckpt": r.choice([1, 2, 0])}
        c.run(_models(tier, seed + 9, ["chain"], 6, 40, "small", "medium"), 8 if tier == "quick" else 14, emphasis=cem)
        c.run(_models(tier, seed + 50, ["mixed", "fanout", "zerodelay"], 2, 15), 5 if tier == "quick" else 14, emphasis=DIST_EM)
        # a token bouncing between two ranks with nothing else pending: the distributed GVT has to follow it (colours, counters, late peeks)
        # (measured on the seeded change C04a: about 1 run in 8 reaches the window, 1 in 4 under the priority-based policy with one thread per rank)
        pem = lambda r: {"ranks": 2, "threads": r.choice([1, 1, 1, 2]), "net": r.choice([0, 1]), "batch": 1, "period": 0, "skew": r.choice([0, 0, 80, 160, 320]),
                         "policy": r.choice([2, 2, 0, 4]), "switch": r.choice(["1/1", "1/2", "1/3", "1/3", "1/4"])}
        c.run(_models(tier, seed + 70, ["pingpong"], 5, 20), 10 if tier == "quick" else 16, emphasis=pem)
        # systematic single-delay exploration: one thread is kept off the processor for a long time at its n-th arrival at an observation
        # point, for every n of a window that spans several GVT rounds (each run is identical up to the delay).  On the `laggard' models only
        # one thread holds the GVT down, so a contribution that is lost, overwritten or read too early shows as a GVT above its pending events.
        # (measured on the seeded change C04c: the delay must be long enough for the other thread to finish its reduction (tens of decisions) and
        # short enough that it does not drain its whole backlog meanwhile; 3..28 of the 79 positions expose it, depending on the model)
        win = range(1, 80) if tier == "quick" else range(1, 200)
        for k in range(1 if tier == "quick" else 5):
            for tag in ((0, 1) if tier == "quick" else (0, 1)):
                for pt, ln in ((("drain", 50),) if tier == "quick" else (("drain", 50), ("drain", 400), ("tphase", 50), ("nphase", 50))):
                    c.sweep_phase("laggard", (seed + 90) * 100 + k,
                                  [{"threads": 2, "ckpt": 0, "batch": 1, "period": 0, "sseed": 7 + tag, "switch": "1/4", "policy": 0, "skew": 0,
                                    "delay": "%d:%s:%d:%d" % (tag, pt, n, ln)} for n in win])
        return c.finish()
    finally:
        c.close()


def _alloc_runs(tier, seed):
    n, ops = (10, 500) if tier == "quick" else (96, 1500)
    return [{"driver": "ckptdrv", "args": (lambda sd: (lambda tr: [tr, sd, ops, 3 + sd % 4]))(seed * 1000 + i), "spec": "CkptTrace.tla",
             "cfg": "CkptTrace.cfg", "label": "alloc%d" % i} for i in range(n)]


def _alloc_mc(c, tier):
    c.mc_phase("BuddyMC.tla", "BuddyMC.cfg", "every reachable tree of an 8-leaf arena: bookkeeping, disjointness, reuse", workers=4, timeout=600)
    if tier == "thorough":
        c.mc_phase("BuddyMC.tla", "BuddyMC_16.cfg", "every reachable tree of a 16-leaf arena (458,330 states)", workers=16, timeout=2400, heap="16g")
        c.mc_phase("CkptMC.tla", "CkptMC.cfg", "multi-arena allocator with checkpoints/restore/fossil: 2 arenas of 4 leaves, 2 checkpoints, histories of "
                   "4 operations with restores and fossil collections to every position (2.8M states)", workers=16, timeout=3000, heap="24g")


ALLOC_RULE = ("system runs: generated models x configurations x schedules (distinct by model, configuration, schedule seed); allocator driver: random "
              "histories of malloc/calloc/realloc/free/write x checkpoints x restores to arbitrary earlier positions x fossil collections on the real "
              "src/mm/buddy built with 256-byte arenas, new arenas at random address positions, one validated line per call")


def check_C05(tier, seed):
    c = syscamp.Campaign("C05", tier, seed, own_ids=["C05"])
    try:
        c.build(dist=True)
        _alloc_mc(c, tier)
        _tw_mc(c, tier, [("TimeWarpMC_m1.tla", "TimeWarpMC_m1.cfg", "m1 (2 LPs: rollback to at/between/before checkpoints)", 2),
                         ("TimeWarpMC_m5.tla", "TimeWarpMC_m5_k2.cfg", "m5 (rollback over a send to the LP itself: restore before it, coast forward over the marks of "
                          "local sends, a different re-execution)", 2)] +
               ([("TimeWarpMC_m2.tla", "TimeWarpMC_m2_k1.cfg", "m2 (3 LPs, cascade)", 1), ("TimeWarpMC_m2.tla", "TimeWarpMC_m2_k2.cfg", "m2", 2)]
                if tier == "thorough" else []))
        c.driver_phase(_alloc_runs(tier, seed))
        em = lambda r: {"ckpt": r.choice([0, 1, 2, 3, 5, 7, 11]), "switch": r.choice(["1/8", "1/24", "1/96", "1/300"]),
                        "threads": r.choice([2, 3, 4])}
        c.run(_models(tier, seed, ["mixed", "fanout", "ties", "zerodelay"], 6, 30), 5 if tier == "quick" else 14, emphasis=em)
        # rollbacks across ranks: the history then holds marks of remote sends, which coast forward must skip and rollback must cancel
        c.micro_phase("d1", 32 if tier == "quick" else 1500, ranks=2, threads=1)
        c.micro_phase("m5", 32 if tier == "quick" else 1500)
        dem = lambda r: dict(DIST_EM(r), ckpt=r.choice([2, 3, 5, 7]))
        c.run(_models(tier, seed + 50, ["mixed", "fanout", "zerodelay"], 3, 12), 4 if tier == "quick" else 12, emphasis=dem)
        return c.finish(rule=ALLOC_RULE)
    finally:
        c.close()


def check_C06(tier, seed):
    em = lambda r: {"switch": r.choice(["1/2", "1/8", "1/24", "1/96"]), "threads": r.choice([2, 3, 4, 6])}
    c = syscamp.Campaign("C06", tier, seed, own_ids=["C06"])
    try:
        c.build(dist=True)
        _tw_mc(c, tier, [("TimeWarpMC_m1.tla", "TimeWarpMC_m1.cfg", "m1 (2 LPs: cancel before extraction / after processing / while re-queued)", 2),
                         ("TimeWarpMC_m2.tla", "TimeWarpMC_m2_k2.cfg", "m2 (3 LPs, cascade of depth 2)", 2)] +
               ([("TimeWarpMC_m2.tla", "TimeWarpMC_m2_k1.cfg", "m2", 1), ("TimeWarpMC_m2.tla", "TimeWarpMC_m2_k3.cfg", "m2", 3)] if tier == "thorough" else []))
        c.mc_phase("TimeWarpMC_m3.tla", "TimeWarpMC_m3_k1.cfg", MC_NOTE % ("m3 (3 LPs on 3 threads: an event arrives while the entry it has to precede was "
                   "cancelled in place and the anti-message copy is not yet re-inserted)", 1), workers=8, timeout=1500, heap="8g")
        c.probe_phase("TimeWarpMC_m3.tla", "TimeWarpMC_m3_k1.cfg", [("Probe_NoExecOverCancelledEntry", "an event that sorts before the last history entry is executed "
                      "after it because that entry was cancelled in place (flag-first comparison)")], workers=4, timeout=600, heap="4g")
        # m5: the rollback undoes a send to the LP itself and a send to an LP of the same thread (anti-message handled by its own sender)
        for k in ((1,) if tier == "quick" else (1, 2)):
            c.mc_phase("TimeWarpMC_m5.tla", "TimeWarpMC_m5_k%d.cfg" % k, MC_NOTE % ("m5 (3 LPs on 2 threads: rollback over a send to the LP itself and over a "
                       "send to an LP of the same thread; the re-execution sends something else)", k), workers=8, timeout=1500, heap="8g")
        c.probe_phase("TimeWarpMC_m5.tla", "TimeWarpMC_m5_k1.cfg",
                      [("Probe_NoRollbackOverProcessedSelfSend", "a rollback undoes an event and the already processed event that it had sent to its own LP"),
                       ("Probe_NoCascadeInSameThread", "the anti-message for a send to an LP of the same thread arrives after processing (rollback in the sender's thread)")],
                      workers=4, timeout=600, heap="4g")
        _tw_mc_dist(c, tier)
        # the real code on the same micro-models, under many schedules (distinct interleavings of the shared accesses)
        c.micro_phase("m5", 64 if tier == "quick" else 3000)
        c.replay_phase("m5", "TimeWarpMC_m5.tla", "TimeWarpMC_m5_k1.cfg", 80 if tier == "quick" else 6000, sim_num=40 if tier == "quick" else 2500)
        c.micro_phase("m1", 64 if tier == "quick" else 3000)
        c.micro_phase("m2", 64 if tier == "quick" else 3000)
        c.micro_phase("m3", 48 if tier == "quick" else 3000, threads=3)
        c.replay_phase("m3", "TimeWarpMC_m3.tla", "TimeWarpMC_m3_k1.cfg", 80 if tier == "quick" else 6000, threads=3, sim_num=40 if tier == "quick" else 2500)
        c.micro_phase("d1", 48 if tier == "quick" else 2000, ranks=2, threads=1)
        c.micro_phase("d2", 48 if tier == "quick" else 2000, ranks=2, threads=2)
        _replay(c, tier, dist=True, exhaustive_m1=False)   # (every behaviour of m1 is replayed by ./check C01 thorough)
        fams = ["fanout", "chain", "mixed", "fanout", "zerodelay", "chain", "ties"]
        c.run(_models(tier, seed, fams, 7, 30), 5 if tier == "quick" else 12, emphasis=em)
        c.run(_models(tier, seed + 50, fams + ["burst"], 4, 16), 6 if tier == "quick" else 14, emphasis=DIST_EM)
        # systematic single-delay exploration around the accesses of the cancellation handshake: a thread is kept off the processor right after
        # its n-th fetch_add on a flag word / between the load and the CAS of its n-th insertion, for every n of a window
        pts = (("flag", 30), ("precas", 30)) if tier == "quick" else (("flag", 30), ("precas", 30), ("push", 30), ("drain", 30), ("flag", 200))
        for k, fam in enumerate(["fanout", "zerodelay"] if tier == "quick" else ["fanout", "zerodelay", "mixed", "ties", "chain"]):
            for pt, ln in pts:
                c.sweep_phase(fam, (seed + 60) * 100 + k,
                              [{"threads": 2, "ckpt": 2, "batch": 1, "period": 100000, "sseed": 11 + tag, "switch": "1/4", "policy": 0, "skew": 0, "budget": 400000,
                                "delay": "%d:%s:%d:%d" % (tag, pt, n, ln)} for tag in (0, 1) for n in (range(1, 41) if tier == "quick" else range(1, 121))])
        return c.finish()
    finally:
        c.close()


def _mc(spec, cfg, workers=8, timeout=1200, heap="8g"):
    r = vlib.tlc(spec, cfg, workers=workers, timeout=timeout, heap=heap, extra=["-noGenerateSpecTE"])
    return r


def _term_phase(c, tr, seed, nseq, ln, extra, mc_states=0):
    """the real termination.c driven through legal environment sequences (process / rollback / GVT), validated by TerminationTrace"""
    import re as _re
    rc, out = vlib.sh([os.path.join(c.bdir, "termdrv"), tr, str(seed), str(nseq), str(ln)], timeout=120)
    v = vlib.tlc("TerminationTrace.tla", "TerminationTrace.cfg", env={"TRACE": tr, "OWNC08": "1" if "C08" in c.own else "0"}, workers=1, timeout=1500)
    v["res"] = vlib.parse_result(v["out"])
    v["verdict"] = "machinery" if v["res"] is None else "bad" if v["res"]["bad"] else "rejected" if v["res"]["reached"] < v["res"]["total"] else "ok"
    c.stats["states"] += v["distinct"] + mc_states
    c.stats["serial_traces"] += nseq
    extra["driver_sequences"] = nseq
    extra["driver_lines_validated"] = v["res"]["reached"] if v.get("res") else 0
    m = _re.search(r'"DIVERGENCES",\s*(\d+)', v["out"])
    extra["conformance_divergences"] = int(m.group(1)) if m else -1
    if v["verdict"] == "bad":
        owned = [b for b in v["res"]["bad"] if b["p"] in c.own]
        b = owned[0] if owned else v["res"]["bad"][0]
        lines = open(tr).read().split("\n")
        i = b["at"] - 1
        j = i
        while j > 0 and '"Reset"' not in lines[j]:
            j -= 1
        seq = lines[j:i + 1]
        rec = {"property": b["p"], "what": b["w"] + " | sequence: " + " ".join(seq)[:900], "line": b["at"],
               "cfg": {"driver": "termdrv", "seed": seed}, "model": ("termdrv", seed), "trace": tr, "md": {}}
        (c.violations if owned else c.other).append(rec)
    elif v["verdict"] != "ok":
        c.machinery.append({"property": c.pid, "what": "termination driver trace: %s %s" % (v["verdict"], json.dumps(v.get("res")))})
    else:
        c.samples.append({"driver": "termdrv", "first_sequence": open(tr).read().split("\n")[:12]})


def check_C07(tier, seed):
    t0 = time.time()
    c = syscamp.Campaign("C07", tier, seed, own_ids=["C07"])
    try:
        c.build()
        extra = {}
        # (a) exhaustive model checking of the termination accounting against every legal environment
        mc = _mc("Termination.tla", "Termination.cfg" if tier == "quick" else "Termination_big.cfg", timeout=1500)
        extra["mc_termination"] = {"states": mc["states"], "distinct": mc["distinct"], "depth": mc["depth"],
                                   "violated": mc["violated"], "error": mc["error"],
                                   "bounds": "2 LPs, timestamps 0..2, <=3 valid events per LP (quick); 3 LPs/0..3 (thorough)"}
        if mc["violated"]:
            c.violations.append({"property": "C07", "what": "TLC: invariant %s of Termination.tla violated (design level)" % mc["violated"],
                                 "line": 0, "cfg": {}, "model": ("Termination.tla", 0), "trace": None, "md": {}})
        elif mc["error"] or mc["timeout"] or not mc["distinct"]:
            c.machinery.append({"property": "C07", "what": "Termination.tla model checking failed: %s" % (mc["error"] or "timeout")})
        # (b) the real termination.c driven through legal environment sequences, validated by TLC
        tr = os.path.join(c.scr, "term.ndjson")
        nseq, ln = (4000, 16) if tier == "quick" else (30000, 20)
        _term_phase(c, tr, seed, nseq, ln, extra, mc["distinct"])
        # (c) whole-system runs
        em = lambda r: {"batch": r.choice([1, 2, 64]), "period": r.choice([0, 0, 40])}
        c.run(_models(tier, seed, ["nonmono", "time0:medium", "initdone", "mixed", "nonmono", "time0:medium", "sparse"], 8, 36),
              5 if tier == "quick" else 12, emphasis=em)
        return c.finish(extra_cov=extra)
    finally:
        c.close()


def check_C08(tier, seed):
    em = lambda r: {"policy": r.choice([0, 1, 1, 2]), "stop_at": r.choice([0, 0, r.randrange(50, 4000)]),
                    "period": r.choice([0, 0, 0, 100]), "term": r.choice([0, 0, 5])}
    c = syscamp.Campaign("C08", tier, seed, own_ids=["C08"])
    try:
        c.build()
        # the teardown protocol at design level: TLC refutes "every run returns" for the protocol as implemented (known finding D9) and
        # proves it, within the bounds, for the variant in which thread 0 re-tests termination before opening a round in the main loop
        # the termination accounting driven through legal call sequences: a thread that is obliged to vote (two GVT values in a row) must vote
        _term_phase(c, os.path.join(c.scr, "term.ndjson"), seed, 4000 if tier == "quick" else 30000, 16 if tier == "quick" else 20, {})
        c.mc_known_phase("GvtShutdown.tla", "GvtShutdown_q.cfg", "AllReturn", "D9", "GvtRound + votes + gvt_msg_drain (flush, barrier, two flushing rounds), "
                         "2 threads: a round opened after the last vote is never joined by the threads already in the barrier", workers=8, timeout=900, heap="8g")
        c.mc_phase("GvtShutdown.tla", "GvtShutdown_fix2.cfg", "the same with the re-test (candidate repair, single node): every run returns; 2 threads, one late voter",
                   workers=8, timeout=900, heap="8g")
        if tier == "thorough":
            c.mc_phase("GvtShutdown.tla", "GvtShutdown_fix3.cfg", "re-test variant, 3 threads, one late voter", workers=8, timeout=1800, heap="8g")
        c.run(_models(tier, seed, ["mixed", "time0", "sparse", "single", "time0", "fanout", "initdone", "nonmono"], 8, 36), 5 if tier == "quick" else 12, emphasis=em)
        # predicates that first hold at a timestamp-0 event, one LP per thread (more threads requested than LPs: clamped): a thread whose
        # accounting goes wrong never votes and the run never ends
        em0 = lambda r: {"threads": 8, "period": r.choice([0, 0, 50]), "stop_at": 0, "term": 0, "policy": r.choice([0, 1, 2])}
        c.run(_models(tier, seed + 40, ["time0"], 3, 12), 3 if tier == "quick" else 8, emphasis=em0)
        return c.finish()
    finally:
        c.close()


def check_C09(tier, seed):
    fixed = [{"threads": t, "ckpt": k, "batch": b, "period": p, "sseed": 7 + t * 13 + k, "switch": sw, "policy": 0}
             for (t, k, b, p, sw) in [(1, 0, 64, 400, "1/4"), (2, 1, 1, 0, "1/2"), (3, 3, 2, 0, "1/24"), (4, 7, 1, 50, "1/8"),
                                      (6, 2, 4, 0, "1/96"), (2, 0, 1, 0, "1/1")]]
    return _sys("C09", tier, seed, ["C09", "C01", "C03", "C05"], ["mixed", "fanout", "ties", "zerodelay"], 5, 24, 1, 6,
                None, fixed=fixed, real=20)


def check_C13(tier, seed):
    c = syscamp.Campaign("C13", tier, seed, own_ids=["C13"])
    try:
        c.build(dist=True)
        _alloc_mc(c, tier)
        c.driver_phase(_alloc_runs(tier, seed + 7))
        _tw_mc(c, tier, [("TimeWarpMC_m1.tla", "TimeWarpMC_m1_g1.cfg", "m1 + abstract GVT + fossil collection (fossil then rollback to the first uncommitted position)", 1)] +
               ([("TimeWarpMC_m1.tla", "TimeWarpMC_m1_g2.cfg", "m1 + abstract GVT + fossil collection", 2)] if tier == "thorough" else []))
        # m4: a collection that finds nothing below the GVT in the history kept by the previous one, then a rollback to the frontier
        c.mc_phase("TimeWarpMC_m4.tla", "TimeWarpMC_m4_g2.cfg", MC_NOTE % ("m4 (quiet LP; two GVT values: the second collection finds nothing new) + fossil collection", 1),
                   workers=8, timeout=1500, heap="8g")
        c.probe_phase("TimeWarpMC_m4.tla", "TimeWarpMC_m4_g2.cfg",
                      [("Probe_NoEmptyFossilAfterCollection", "fossil_lp_collect runs on a re-based, non-empty history with nothing below the GVT"),
                       ("Probe_NoRollbackToFrontierAfterCollection", "a rollback to the very beginning of a re-based history (needs the checkpoint kept at the frontier)")],
                      workers=4, timeout=600, heap="4g")
        c.micro_phase("m4", 40 if tier == "quick" else 300)
        em = lambda r: {"ckpt": r.choice([1, 2, 3, 4, 6]), "batch": 1, "period": 0, "switch": r.choice(["1/8", "1/24", "1/96"]),
                        "threads": r.choice([2, 3, 4])}
        c.run(_models(tier, seed, ["mixed", "fanout", "zerodelay"], 6, 30, "small", "medium"), 5 if tier == "quick" else 14, emphasis=em)
        # a checkpoint after every event, GVT rounds back to back, events that send nothing: the history left by one collection
        # starts with an event directly followed by a checkpoint, and the next round's GVT is often not above that event
        # (family backlog: a quiet LP far ahead of a GVT that a ticking LP holds down, one thread each)
        em1 = lambda r: {"ckpt": 1, "batch": 1, "period": 0, "switch": r.choice(["1/4", "1/8", "1/24"]), "threads": 3}
        c.run(_models(tier, seed + 3, ["backlog"], 6, 16, "medium", "medium"), 4 if tier == "quick" else 8, emphasis=em1)
        # fossil collection across ranks: the kept history then holds marks of REMOTE sends above the GVT, which the backward walk of
        # fossil_lp_collect must step over (seeded change C13d: the walk stopped on such a mark and read a timestamp through the tagged pointer)
        c.micro_phase("d1", 24 if tier == "quick" else 600, ranks=2, threads=1)
        dem = lambda r: dict(DIST_EM(r), ckpt=r.choice([1, 2, 3, 5]), batch=1, period=0)
        c.run(_models(tier, seed + 50, ["mixed", "fanout", "zerodelay", "burst"], 4, 14), 5 if tier == "quick" else 12, emphasis=dem)
        return c.finish(rule=ALLOC_RULE)
    finally:
        c.close()


def check_C10(tier, seed):
    """serial runtime = reference semantics: every serial trace must be a behaviour of SeqSim"""
    import gen_model
    t0 = time.time()
    scr = vlib.scratch()
    try:
        bdir = vlib.build(os.path.join(scr, "build"))
        fams = list(gen_model.FAMILIES)
        n = 16 if tier == "quick" else 90
        jobs = []
        for i in range(n):
            fam = fams[i % len(fams)]
            size = "small" if (tier == "quick" or i % 3) else "medium"
            for mode in (["never"], ["pred"], ["term", 3 + i % 7]):
                jobs.append((fam, seed * 1000 + i, size, mode))
        # simultaneous events that differ only beyond the 32 payload bytes stored in the message header (order decided by the trailing part)
        for i in range(10 if tier == "quick" else 60):
            jobs.append(("longties", seed * 1000 + 500 + i, "small", ["never"] if i % 3 else ["pred"]))

        def one(j):
            fam, ms, size, mode = j
            d = os.path.join(scr, "m_%s_%d_%s" % (fam, ms, mode[0]))
            os.makedirs(d, exist_ok=True)
            m = gen_model.gen(ms, fam, size)
            if mode[0] == "term":
                m["termtime"] = mode[1]
            open(os.path.join(d, "model.txt"), "w").write(gen_model.to_txt(m))
            json.dump(m, open(os.path.join(d, "model.json"), "w"))
            tr = os.path.join(d, "serial.ndjson")
            args = ["--model", os.path.join(d, "model.txt"), "--out", tr, "--serial", "--gvt-period", "0"]
            if mode[0] == "never":
                args.append("--never-end")
            if mode[0] == "term":
                args += ["--term-time", mode[1]]
            rc, out = syscamp.run_twh(bdir, args)
            if rc != 0:
                return {"job": j, "verdict": "machinery", "why": "twh rc=%d %s" % (rc, out[-200:]), "trace": tr}
            v = vlib.validate_trace("SeqSimTrace.tla", "SeqSimTrace.cfg", tr, model=os.path.join(d, "model.json"))
            return {"job": j, "verdict": v["verdict"], "v": v, "trace": tr, "model": os.path.join(d, "model.json"),
                    "lines": v["res"]["total"] if v.get("res") else 0, "reached": v["res"]["reached"] if v.get("res") else 0}

        res = vlib.pmap(one, jobs)
        mc = vlib.tlc("SeqSimMC.tla", "SeqSimMC.cfg", env={"MODEL": os.path.join(vlib.SPEC, "models", "tiny.json")}, workers=2, timeout=600,
                      extra=["-noGenerateSpecTE"])
        states = sum(r["v"]["distinct"] for r in res if "v" in r) + mc["distinct"]
        viol = [r for r in res if r["verdict"] in ("rejected", "invariant", "bad")]
        mach = [r for r in res if r["verdict"] == "machinery"]
        rc = 0
        for k, r in enumerate(viol[:3]):
            line = ""
            try:
                line = open(r["trace"]).read().split("\n")[r["reached"]]
            except Exception:
                pass
            rp = vlib.save_replay("C10", "v%d" % (k + 1), [r["trace"], r.get("model")],
                                  {"property": "C10", "job": r["job"], "rejected_at_line": r["reached"] + 1, "line": line,
                                   "invariant": r["v"].get("violated")})
            print("VIOLATION property=C10 replay=%s  (serial trace is not a behaviour of SeqSim: longest accepted prefix %d of %d lines; next line %s)"
                  % (rp, r["reached"], r["lines"], line[:200]))
            rc = 1
        if mc["violated"]:
            print("VIOLATION property=C10 replay=%s  (SeqSim on the tiny tie-heavy model: %s violated)" % (os.path.join(vlib.SPEC, "SeqSimMC.tla"), mc["violated"]))
            rc = 1
        elif mc["error"] or not mc["distinct"]:
            mach.append({"why": "SeqSimMC failed: %s" % mc["error"]})
        if mach and rc == 0:
            print("MACHINERY-FAILURE", json.dumps(mach[0].get("why"))[:400])
            rc = 2
        ok = [r for r in res if r["verdict"] == "ok"]
        cov = {"states": max(1, states), "transitions": max(1, states), "traces_validated_against_impl": len(res),
               "samples": [{"model": "%s/%d/%s" % (r["job"][0], r["job"][1], r["job"][2]), "mode": r["job"][3], "lines": r["lines"]}
                           for r in ok[:3]] or [{"note": "none accepted"}],
               "evaluations": len(res), "distinct_nontrivial": len(set((r["job"][0], r["job"][1], tuple(r["job"][3])) for r in ok)),
               "rule": "generated models of every family x stop mode (run to exhaustion / stop by predicates / stop after a termination time); "
                       "distinct by (model, mode); every line of the serial engine's dispatch log must be a SeqSim step",
               "trace_lines_validated": sum(r.get("reached", 0) for r in res), "exhaustive": False,
               "model_checking_runs": [{"spec": "SeqSimMC.tla", "what": "every tie resolution of the reference semantics on a tiny tie-heavy model gives the same "
                                        "per-LP history", "states": mc["states"], "distinct": mc["distinct"], "violated": mc["violated"]}]}
        vlib.write_evidence("C10", tier, seed, "model_checking", cov, time.time() - t0, violations=len(viol),
                            assumptions=["the table-driven interpreter logs faithfully what the dispatcher handed to it",
                                         "library draws are taken from the log (their values are an input of SeqSim)"])
        return rc
    finally:
        if not os.environ.get("VERIF_KEEP"):
            shutil.rmtree(scr, ignore_errors=True)


def _driver_check(pid, tier, seed, runs, level="model_checking", rule="", assumptions=None, exhaustive=False, mc=None,
                  extra_cov=None, variant="plain", build_extra=""):
    """runs: list of dicts {driver, args (callable(trace_path)->list), spec, cfg, env, label, sample(callable)}.
    Each run: execute the driver built from /repo's working tree, validate its ndjson output with TLC."""
    import re as _re
    t0 = time.time()
    scr = vlib.scratch()
    viol, mach, samples = [], [], []
    states = lines = ntr = 0
    cov_extra = dict(extra_cov or {})
    try:
        bdir = vlib.build(os.path.join(scr, "build"), variant, build_extra)
        if mc:
            for (mspec, mcfg, label, kw) in mc:
                r = vlib.tlc(mspec, mcfg, extra=["-noGenerateSpecTE"], **kw)
                cov_extra.setdefault("model_checking_runs", []).append(
                    {"spec": mspec, "cfg": mcfg, "what": label, "states": r["states"], "distinct": r["distinct"],
                     "depth": r["depth"], "violated": r["violated"], "error": r["error"], "timeout": r["timeout"],
                     "wall_s": round(r["wall"], 1)})
                states += r["distinct"]
                if r["violated"]:
                    viol.append({"what": "TLC: %s violated in %s/%s (%s)" % (r["violated"], mspec, mcfg, label), "trace": None,
                                 "label": label, "line": 0, "text": ""})
                elif r["error"] or (r["timeout"] and not kw.get("ok_timeout")) or not r["distinct"]:
                    mach.append("model checking of %s/%s failed: %s" % (mspec, mcfg, r["error"] or "timeout/no states"))

        def one(run):
            tr = os.path.join(scr, "t_%s.ndjson" % run["label"])
            rc, out = vlib.sh([os.path.join(bdir, run["driver"])] + [str(a) for a in run["args"](tr)], timeout=run.get("timeout", 300))
            if rc != 0 and not run.get("rc_ok"):
                return {"run": run, "verdict": "machinery", "why": "driver rc=%d %s" % (rc, out[-300:]), "trace": tr}
            v = vlib.validate_trace(run["spec"], run["cfg"], tr, timeout=run.get("tlc_timeout", 1500))
            return {"run": run, "verdict": v["verdict"], "v": v, "trace": tr, "drv_out": out}

        for res in vlib.pmap(one, runs):
            ntr += 1
            v = res.get("v")
            if v:
                states += v["distinct"]
                if v.get("res"):
                    lines += v["res"]["reached"]
                dm = _re.search(r'"DIVERGENCES",\s*(\d+)', v["out"])
                if dm:
                    cov_extra["divergences_from_reference_spec"] = cov_extra.get("divergences_from_reference_spec", 0) + int(dm.group(1))
            if res["verdict"] == "ok":
                if len(samples) < 3:
                    try:
                        samples.append({"run": res["run"]["label"], "first_lines": open(res["trace"]).read(600).split("\n")[:3]})
                    except Exception:
                        pass
                continue
            if res["verdict"] == "bad":
                b = v["res"]["bad"][0]
                txt = ""
                try:
                    txt = open(res["trace"]).read().split("\n")[b["at"] - 1][:400]
                except Exception:
                    pass
                if b["p"] == "DIV":
                    mach.append("divergence in %s: %s at line %d %s" % (res["run"]["label"], b["w"], b["at"], txt))
                else:
                    viol.append({"what": b["w"], "trace": res["trace"], "label": res["run"]["label"], "line": b["at"], "text": txt,
                                 "p": b["p"]})
            else:
                mach.append("%s: trace %s %s %s" % (res["run"]["label"], res["verdict"], res.get("why", ""),
                                                    json.dumps((v or {}).get("res"))[:300] + ((v or {}).get("error") or "")))
        kf = vlib.known_findings()
        rc = 0
        real = []
        for x in viol:
            known = None
            for f in kf.get("findings", []):
                if f.get("property") == pid and f.get("match") and f["match"] in (x["what"] + " " + x["text"]):
                    known = f
            if known:
                print("KNOWN-FINDING: property=%s %s" % (pid, known["what"]))
            else:
                real.append(x)
        for k, x in enumerate(real[:3]):
            rp = vlib.save_replay(pid, "v%d" % (k + 1), [x["trace"]], {"property": pid, "what": x["what"], "line": x["line"],
                                                                     "text": x["text"], "run": x["label"]})
            print("VIOLATION property=%s replay=%s  (%s; line %s: %s)" % (pid, rp, x["what"], x["line"], x["text"][:300]))
            rc = 1
        if mach and rc == 0:
            print("MACHINERY-FAILURE", mach[0][:600])
            rc = 2
        cov = {"states": max(1, states), "transitions": max(1, states), "traces_validated_against_impl": ntr,
               "samples": samples or [{"note": "none accepted"}], "evaluations": max(1, lines), "distinct_nontrivial": max(2, lines) if lines > 1 else 0,
               "rule": rule, "trace_lines_validated": lines, "exhaustive": exhaustive}
        cov.update(cov_extra)
        vlib.write_evidence(pid, tier, seed, level, cov, time.time() - t0, violations=len(real), assumptions=assumptions or [])
        return rc
    finally:
        if not os.environ.get("VERIF_KEEP"):
            shutil.rmtree(scr, ignore_errors=True)
        else:
            print("scratch kept:", scr)


def check_C16(tier, seed):
    runs = [{"driver": "orderdrv", "args": lambda tr: [tr], "spec": "OrderTrace.tla", "cfg": "OrderTrace.cfg", "label": "order"}]
    return _driver_check("C16", tier, seed, runs, exhaustive=True,
                         rule="all 300 events over t in {0,1} x anti x type in {0,1,65534} x size in {0,1,32,33,40} x up to 7 byte patterns "
                              "(first/last byte larger or smaller, head larger with tail smaller and vice versa; the last byte of 33/40-byte payloads lies beyond "
                              "the 32-byte base area): every ordered pair evaluated by the real msg_is_before and q_elem_is_before with all non-content fields "
                              "varied (one trace line per row of 300 pairs); TLC evaluates irreflexivity, asymmetry, transitivity and transitivity of incomparability "
                              "over all triples of the table of the code",
                         assumptions=["domain is finite; payload bytes restricted to 3 patterns per size"])


def check_C14(tier, seed):
    b = (48, 6, 6) if tier == "quick" else (120, 8, 8)
    nchunks = 4 if tier == "quick" else 16
    runs = [{"driver": "partdrv", "args": (lambda i: (lambda tr: [tr, b[0], b[1], b[2], nchunks, i]))(i), "spec": "PartitionTrace.tla",
             "cfg": "PartitionTrace.cfg", "label": "part%d" % i} for i in range(nchunks)]
    c = syscamp.Campaign("C14", tier, seed, own_ids=["C14"])
    try:
        c.build(dist=True)
        c.mc_phase("PartitionMC.tla", "PartitionMC.cfg" if tier == "quick" else "PartitionMC_big.cfg",
                   "C14 on the specification for every triple up to the bound", workers=1, timeout=1500)
        c.driver_phase(runs)
        # the users of the routing functions inside the running system (ScheduleNewEvent's local/remote decision, msg_queue_insert's queue
        # selection, LP_INIT / execution / LP_FINI by the owner): the C14-labelled checks of TimeWarp.tla in multi-rank and single-node runs
        em = lambda r: {"ranks": r.choice([2, 2, 3]), "threads": r.choice([1, 2, 3]), "net": r.choice([0, 1]), "batch": r.choice([1, 2]), "period": r.choice([0, 50])}
        c.run(_models(tier, seed + 20, ["fanout", "mixed", "ties", "zerodelay"], 3, 12), 4 if tier == "quick" else 10, emphasis=em)
        em1 = lambda r: {"threads": r.choice([2, 3, 4, 6, 8])}
        c.run(_models(tier, seed + 30, ["fanout", "mixed"], 2, 8), 3 if tier == "quick" else 8, emphasis=em1)
        return c.finish(rule="every (LPs <= %d, ranks <= %d, threads <= %d) triple, every rank and every worker: the real lp_global_init/lp_init/lp_fini are run; "
                             "one trace line per (triple, rank) with the ranges claimed, what an observer of the dispatcher saw (who initialises/finalises "
                             "which LP) and the tables of lid_to_nid/lid_to_rid; ranks with no LP and more threads than LPs included; C14 is checked on "
                             "the tables themselves, equality with Partition.tla only counted; plus multi-rank and single-node system runs (routing of "
                             "every event, ownership of every execution)" % b)
    finally:
        c.close()


def check_C12(tier, seed):
    c = syscamp.Campaign("C12", tier, seed, own_ids=["C12"])
    try:
        c.build()
        _alloc_mc(c, tier)
        runs = _alloc_runs(tier, seed + 13)
        if tier == "quick":
            runs += [dict(r, label=r["label"] + "b", args=(lambda sd: (lambda tr: [tr, sd, 500, 4]))(seed * 77 + i)) for i, r in enumerate(runs[:6])]
        c.driver_phase(runs)
        return c.finish(rule=ALLOC_RULE, assumptions=[
            "small-arena build (ROOTSIM_VERIF_B_TOTAL_EXP=8, B_BLOCK_EXP=4): same source, other constants",
            "block contents abstracted to a tag pattern written and read back by the driver",
            "production constants are exercised by the system-level runs (size accounting and digests at every event)"])
    finally:
        c.close()


def check_C11(tier, seed):
    """memory safety / UB: (i) size accounting and message-buffer ownership evaluated by TLC on every trace (C11-labelled checks
    of TimeWarpTrace and CkptTrace), (ii) the same specification-driven runs re-executed by an ASan+UBSan build"""
    c = syscamp.Campaign("C11", tier, seed, own_ids=["C11"])
    c.level = "other"
    try:
        c.build()
        c.driver_phase(_alloc_runs(tier, seed + 3))
        em = lambda r: {"ckpt": r.choice([0, 1, 2, 5]), "threads": r.choice([1, 2, 3, 4])}
        results = c.run(_models(tier, seed, ["mixed", "fanout", "zerodelay", "ties", "nonmono"], 5, 24), 4 if tier == "quick" else 10, emphasis=em)
        # sanitizer build: re-execute every accepted run and some allocator histories
        abdir = os.path.join(c.scr, "build_asan")
        vlib.build(abdir, "asan")
        env = {"ASAN_OPTIONS": "detect_leaks=0:abort_on_error=0:exitcode=66:handle_segv=0:handle_abort=0",
               "UBSAN_OPTIONS": "print_stacktrace=1:halt_on_error=1:exitcode=66"}
        jobs = [r for r in results if r.get("verdict") in ("ok", "bad")]

        def san(res):
            out_tr = res["trace"] + ".asan"
            args = ["--model", res["md"]["txt"], "--out", out_tr] + syscamp.cfg_args(res["cfg"])
            try:
                rc, out = vlib.sh([os.path.join(abdir, "twh")] + [str(a) for a in args], timeout=300, env=env)
            except Exception as ex:
                return {"res": res, "rc": -9, "out": str(ex)}
            return {"res": res, "rc": rc, "out": out}

        sres = vlib.pmap(san, jobs)

        def san_alloc(i):
            tr = os.path.join(c.scr, "asan_alloc_%d.ndjson" % i)
            try:
                rc, out = vlib.sh([os.path.join(abdir, "ckptdrv"), tr, str(seed * 31 + i), "800", str(3 + i % 4)], timeout=300, env=env)
            except Exception as ex:
                return {"rc": -9, "out": str(ex), "i": i}
            return {"rc": rc, "out": out, "i": i}

        ares = vlib.pmap(san_alloc, list(range(6 if tier == "quick" else 40)))
        nsan = 0
        for s in sres:
            nsan += 1
            if "AddressSanitizer" in s["out"] or "runtime error:" in s["out"]:
                rep = os.path.join(c.scr, "san_%d.txt" % nsan)
                open(rep, "w").write(s["out"][-8000:])
                first = [x for x in s["out"].split("\n") if "ERROR: AddressSanitizer" in x or "runtime error:" in x][:1]
                c.violations.append({"property": "C11", "what": "sanitizer report in a specification-driven run: %s" % (first[0][:300] if first else ""),
                                     "line": 0, "cfg": s["res"]["cfg"], "model": (s["res"]["md"]["family"], s["res"]["md"]["mseed"]),
                                     "trace": rep, "md": s["res"]["md"]})
            elif s["rc"] not in (0, 3, 4):
                c.machinery.append({"property": "C11", "what": "sanitizer build run failed rc=%s %s" % (s["rc"], s["out"][-300:])})
        for a in ares:
            nsan += 1
            if "AddressSanitizer" in a["out"] or "runtime error:" in a["out"]:
                rep = os.path.join(c.scr, "san_alloc_%d.txt" % a["i"])
                open(rep, "w").write(a["out"][-8000:])
                first = [x for x in a["out"].split("\n") if "ERROR: AddressSanitizer" in x or "runtime error:" in x][:1]
                c.violations.append({"property": "C11", "what": "sanitizer report in an allocator history: %s" % (first[0][:300] if first else ""),
                                     "line": 0, "cfg": {"driver": "ckptdrv", "seed": seed * 31 + a["i"]}, "model": ("ckptdrv", a["i"]), "trace": rep, "md": {}})
            elif a["rc"] != 0:
                c.machinery.append({"property": "C11", "what": "sanitizer build of ckptdrv failed rc=%s %s" % (a["rc"], a["out"][-300:])})
        return c.finish(extra_cov={"sanitizer_reexecutions": nsan,
                                   "explanation": "TLC decides the C11-labelled checks (checkpoint size counter equals the bytes a checkpoint needs, "
                                                  "recomputed from the real allocation trees at every event/rollback/allocator call; no message buffer freed "
                                                  "twice, used after free or freed while reachable; inbox empty at queue teardown); memory errors TLA+ cannot "
                                                  "express are watched by ASan+UBSan while the same specification-driven runs are re-executed"},
                        rule=ALLOC_RULE + "; every accepted system run and extra allocator histories re-executed under ASan+UBSan",
                        assumptions=["sanitizers only see the executions that are run: inputs outside the generated model family are not covered",
                                     "sequential-consistency interleavings only; no weak-memory reorderings"])
    finally:
        c.close()


def check_C17(tier, seed):
    c = syscamp.Campaign("C17", tier, seed, own_ids=["C17"])
    try:
        c.build()
        for n in (2, 3, 4):
            c.mc_phase("Barrier.tla", "Barrier_%d.cfg" % n, "all interleavings of %d threads over unboundedly many uses (finite state: phases mod 4), "
                       "safety + liveness under weak fairness" % n, workers=4, timeout=900)
        import random
        r = random.Random(seed * 17 + 3)
        nruns = 48 if tier == "quick" else 400
        runs = []
        for i in range(nruns):
            n = r.choice([2, 2, 3, 3, 4, 5, 6])
            k = r.choice([9, 10, 12, 16])
            sw = r.choice(["1/1", "1/2", "1/3", "1/6", "1/20"])
            pol = r.choice([0, 0, 1, 2])
            sd = r.randrange(1, 1 << 30)
            runs.append({"driver": "bardrv", "args": (lambda a: (lambda tr: [tr] + a))([sd, n, k, sw, pol]), "spec": "BarrierTrace.tla",
                         "cfg": "BarrierTrace.cfg", "label": "bar%d" % i})
        # truly concurrent runs as well: accesses between two observation points can only interleave there
        for i in range(3 if tier == "quick" else 12):
            runs.append({"driver": "bardrv", "args": (lambda a: (lambda tr: [tr] + a))([i + 1, r.choice([2, 3, 4]), 20000 if tier == "quick" else 200000, "1/1", 9]),
                         "spec": "BarrierTrace.tla", "cfg": "BarrierTrace.cfg", "label": "barreal%d" % i, "timeout": 600})
        c.driver_phase(runs)
        return c.finish(rule="model checking: every interleaving for N=2,3,4; binding: N in 2..6 real threads x 9..16 consecutive uses x random/round-robin/"
                             "priority schedules switching between the fetch_add and each spin-loop load (distinct by seed), one validated line per arrival/return",
                        assumptions=["sequential consistency (the acq_rel/relaxed orderings of the C code are not explored)"])
    finally:
        c.close()


def check_C15(tier, seed):
    c = syscamp.Campaign("C15", tier, seed, own_ids=["C15"])
    try:
        c.build()
        c.mc_phase("MsgQueueMC.tla", "MsgQueueMC_3.cfg", "3 producers x 4 messages (equal timestamps) + consumer: every load/CAS/retry/exchange/extract/peek interleaving",
                   workers=8, timeout=900, heap="8g")
        if tier == "thorough":
            c.mc_phase("MsgQueueMC.tla", "MsgQueueMC.cfg", "2 producers x 5 messages: every interleaving (1.3M states)", workers=16, timeout=1800, heap="16g")
        import random
        r = random.Random(seed * 19 + 5)
        runs = []
        for i in range(48 if tier == "quick" else 400):
            a = [r.randrange(1, 1 << 30), r.choice([1, 2, 2, 3, 3, 4]), r.choice([4, 6, 8, 12]), r.choice(["1/1", "1/2", "1/3", "1/8", "1/30"]),
                 r.choice([0, 0, 1, 2])]
            runs.append({"driver": "mqdrv", "args": (lambda a: (lambda tr: [tr] + a))(a), "spec": "MsgQueueTrace.tla", "cfg": "MsgQueueTrace.cfg",
                         "label": "mq%d" % i, "timeout": 60})
        c.driver_phase(runs)
        # the queue inside the running system (set-up order of the workers, insertions from LP_INIT handlers into queues of threads that start late,
        # teardown): every Push / Drain / Extract of a system trace is checked by the C15-labelled checks of TimeWarp.tla
        em = lambda r: {"threads": r.choice([2, 3, 4, 6]), "switch": r.choice(["1/2", "1/8", "1/24", "1/96", "1/300"]), "policy": r.choice([0, 1, 1, 2])}
        c.run(_models(tier, seed, ["mixed", "fanout", "ties", "zerodelay"], 4, 16), 4 if tier == "quick" else 10, emphasis=em)
        # truly concurrent threads: a lost or duplicated insertion changes the final states (or the run does not return)
        c.real_phase(_models(tier, seed + 80, ["fanout", "mixed"], 2, 6, "medium", "medium"), 10 if tier == "quick" else 80, labels=("C15",))
        return c.finish(rule="model checking: every interleaving for 2-3 producers and 4-5 messages with ties; binding: 1..4 real producer threads x 4..12 messages "
                             "each (4 distinct timestamps, cancelled entries) + the consumer mixing extract and time_peek, schedules switching between load and CAS "
                             "(distinct by seed); one validated line per push, swap, extraction, peek; the same Push/Drain/Extract checks run inside every system trace",
                        assumptions=["sequential consistency; release/acquire orderings of the C code are not explored"])
    finally:
        c.close()


def check_C19(tier, seed):
    md, k = (5, 6) if tier == "quick" else (8, 12)
    runs = [{"driver": "topodrv", "args": lambda tr: [tr, md, k], "spec": "TopologyTrace.tla", "cfg": "TopologyTrace.cfg", "label": "topo",
             "timeout": 300, "tlc_timeout": 2400}]
    return _driver_check("C19", tier, seed, runs, exhaustive=True,
                         rule="all eight geometries; grids with width and height 1..%d (1xN, Nx1, 1x1 included), rings/star/mesh with 1..%d regions, graphs with every "
                              "link set over 2 and 3 regions; every source region, all eight fixed directions, %d random directions from consecutive generator "
                              "states, and the purity test (generator state restored after calls on behalf of another LP); one validated line per source region"
                              % (md, 2 * md, k),
                         assumptions=["concurrent use by several threads is represented by interleaved calls on behalf of other LPs between two calls with the same generator state"])


def check_C18(tier, seed):
    """bit-level conversion of Random(), range contracts, generator isolation: TLC on traces of the real library over crafted and
    sequential generator states; the same driver re-executed under UBSan (shift amounts, overflows)"""
    t0 = time.time()
    nseq = 150 if tier == "quick" else 1500
    nseeds = 4 if tier == "quick" else 24
    runs = [{"driver": "randdrv", "args": (lambda sd: (lambda tr: [tr, sd, nseq]))(seed * 100 + i), "spec": "RandomTrace.tla", "cfg": "RandomTrace.cfg",
             "label": "rand%d" % i, "timeout": 120, "tlc_timeout": 2400} for i in range(nseeds)]
    mc = [("RandomBitsMC.tla", "RandomBitsMC.cfg", "every raw output of a 12-bit word: value in [0,1); the shift is undefined exactly for the word 0..01",
           {"workers": 2, "timeout": 900})]
    # UBSan re-execution of the driver: a sanitizer report is a violation (undefined shift, overflow)
    scr = vlib.scratch()
    san_note = {}
    extra_viol = None
    try:
        abdir = vlib.build(os.path.join(scr, "build_asan"), "asan")
        rc, out = vlib.sh([os.path.join(abdir, "randdrv"), os.path.join(scr, "r.ndjson"), str(seed), str(nseq)], timeout=300,
                          env={"ASAN_OPTIONS": "detect_leaks=0", "UBSAN_OPTIONS": "print_stacktrace=0:halt_on_error=0"})
        errs = sorted(set(x.strip() for x in out.split("\n") if "runtime error:" in x or "ERROR: AddressSanitizer" in x))
        san_note = {"sanitizer_reports": errs[:5], "sanitizer_rc": rc}
        if errs:
            extra_viol = errs[0]
    finally:
        shutil.rmtree(scr, ignore_errors=True)
    rcode = _driver_check("C18", tier, seed, runs, mc=mc, extra_cov=dict(san_note, explanation=(
        "TLC decides: IEEE bits returned by Random() equal the RandomBits conversion for 0, 1, all ones, every 2^k and its neighbours and mantissa "
        "boundaries (crafted generator states) and for sequential states; range contracts of RandomRange/RandomRangeNonUniform/Zipf, finiteness and "
        "sign of Expent/Gamma/Normal on crafted extremes and sequential states; only the caller's generator advances. Numeric accuracy and "
        "distribution shape are outside this technique (DESIGN.md section 7). Undefined behaviour is watched by UBSan on the same driver.")),
        level="other",
        rule="7 class representatives per leading-zero class (449 crafted raw outputs) + sequential states x seeds; one validated line per library call",
        assumptions=["documented argument domain taken from the repository's own functional tests: 0 <= min <= max, x >= 0",
                     "not all 2^64 raw outputs: class representatives of every leading-zero class and boundary mantissas"])
    if extra_viol and rcode == 0:
        os.makedirs(os.path.join(vlib.OUTDIR, "replays", "C18"), exist_ok=True)
        rp = os.path.join(vlib.OUTDIR, "replays", "C18", "ubsan.txt")
        open(rp, "w").write(extra_viol + "\n")
        print("VIOLATION property=C18 replay=%s  (undefined behaviour in the numerical library on a crafted generator state: %s)" % (rp, extra_viol[:300]))
        return 1
    return rcode


def check_C20(tier, seed):
    c = syscamp.Campaign("C20", tier, seed, own_ids=["C20"])
    c.want_stats = True
    c.trace_spec = ("StatsTrace.tla", "StatsTrace.cfg")
    try:
        c.build()
        em = lambda r: {"batch": r.choice([1, 1, 2, 64]), "period": r.choice([0, 0, 30, 100000]), "threads": r.choice([1, 2, 3, 4]),
                        "stop_at": r.choice([0, 0, 0, r.randrange(100, 3000)]), "term": r.choice([0, 0, 6])}
        c.run(_models(tier, seed, ["mixed", "fanout", "ties", "sparse", "zerodelay", "single"], 8, 36, "small", "medium"), 6 if tier == "quick" else 14,
              emphasis=em)
        return c.finish(rule="generated models x thread counts x GVT periods (including a period so long that no round completes before the end: zero records) "
                             "x stops; distinct by (model, configuration, schedule seed); the statistics file is parsed by an independent reader inside the harness "
                             "and by the shipped rootsim_stats.py, every record compared with the counters accumulated from the observation points",
                        assumptions=["timing fields of the records (processed time, checkpoint time, ...) are not constrained",
                                     "single node (multi-rank files are produced through MPI data messages, see C02)"])
    finally:
        c.close()


def check_C02(tier, seed):
    c = syscamp.Campaign("C02", tier, seed, own_ids=["C02", "C01", "C03"])
    try:
        c.build(dist=True)
        _tw_mc_dist(c, tier)
        c.mc_phase("GvtDist.tla", "GvtDist_q.cfg", "GvtDist: the distributed GVT (colours, message counting, reductions) on 2 ranks, 3 messages, 1 round", workers=8,
                   timeout=900, heap="8g")
        # the real code (renamed rank copies over the fake MPI) on the same micro-models, under many schedules
        c.micro_phase("d1", 64 if tier == "quick" else 3000, ranks=2, threads=1)
        c.micro_phase("d2", 64 if tier == "quick" else 3000, ranks=2, threads=2)
        if tier == "quick":
            c.replay_phase("d1", "TimeWarpMC_d1.tla", "TimeWarpMC_d1_k1.cfg", 100, ranks=2, threads=1, sim_num=50)
            c.replay_phase("d2", "TimeWarpMC_d2.tla", "TimeWarpMC_d2_k1.cfg", 100, ranks=2, threads=2, sim_num=50)
        else:
            c.replay_phase("d1", "TimeWarpMC_d1.tla", "TimeWarpMC_d1_k1.cfg", 8000, ranks=2, threads=1, sim_num=3000)
            c.replay_phase("d2", "TimeWarpMC_d2.tla", "TimeWarpMC_d2_k1.cfg", 8000, ranks=2, threads=2, sim_num=3000)
        em = lambda r: {"ranks": r.choice([2, 2, 3]), "threads": r.choice([1, 2, 2, 3]), "net": r.choice([0, 0, 1]),
                        "batch": r.choice([1, 1, 2, 8]), "period": r.choice([0, 0, 40])}
        c.run(_models(tier, seed, ["mixed", "fanout", "ties", "zerodelay", "pingpong", "nonmono", "chain"], 7, 36), 6 if tier == "quick" else 14, emphasis=em)
        # several same-timestamp events sent to one remote LP and cancelled together while the receiver is busy: several early anti-messages at once
        # a token bouncing between two ranks with nothing else pending: the distributed GVT has to follow it (same phase as in ./check C04)
        pem = lambda r: {"ranks": 2, "threads": r.choice([1, 1, 1, 2]), "net": r.choice([0, 1]), "batch": 1, "period": 0, "skew": r.choice([0, 0, 80, 160, 320]),
                         "policy": r.choice([2, 2, 0, 4]), "switch": r.choice(["1/1", "1/2", "1/3", "1/3", "1/4"])}
        c.run(_models(tier, seed + 70, ["pingpong"], 5, 20), 10 if tier == "quick" else 16, emphasis=pem)
        bem = lambda r: {"ranks": r.choice([2, 2, 3]), "threads": r.choice([1, 1, 2]), "net": r.choice([0, 1]), "batch": r.choice([1, 1, 4]), "period": 0}
        c.run(_models(tier, seed + 30, ["burst"], 3, 16), 6 if tier == "quick" else 14, emphasis=bem)
        return c.finish(rule="generated models x (2-3 ranks) x (1-3 threads per rank) x checkpoint interval x batch x GVT period x scheduler seeds; the ranks are "
                             "renamed copies of the real core (distributed/mpi.c included) in one process over a fake MPI whose delivery order across sender threads, probe "
                             "misses and collective completion times are chosen by the scheduler; distinct by (model, configuration, schedule seed)",
                        assumptions=["MPI semantics as used: eager copy at Isend, non-overtaking per (sender thread, destination rank), collectives complete after all "
                                     "ranks posted; conformance of a real MPI library to this is assumed",
                                     "sequential consistency; the serial reference trace is validated against SeqSim first"])
    finally:
        c.close()
