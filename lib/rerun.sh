#!/bin/bash
# rerun.sh <twh binary> <model.txt> <trace.ndjson> <out> : re-execute the run described by the Config line of a trace
C=$(head -1 "$3")
j() { echo "$C" | jq -r "$1"; }
T=$(j .term); TT=""; [ "$T" != "1073741824" ] && TT="--term-time $T"
SA=$(j .stopat); ST=""; [ "$SA" != "-1" ] && ST="--stop-at $SA"
exec "$1" --model "$2" --out "$4" --threads $(j .threads) --ckpt $(j .ckpt) --batch $(j .batch) --gvt-period $(j .period) --seed $(j .seed) --prng $(j .prng) --switch $(j .sw) --policy $(j .policy) --skew $(j .skew) --park $(j .park) $TT $ST
