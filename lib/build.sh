#!/bin/bash
# build.sh <outdir> [variant] : compile ROOT-Sim/core from /repo's current working tree with the
# verification guard ON and link the harness programs.  variant: plain | asan
set -e
OUT=$1; VARIANT=${2:-plain}; EXTRA=${3:-}
REPO=${VERIF_REPO:-/repo}
HERE=$(cd "$(dirname "$0")/.." && pwd)
mkdir -p "$OUT/obj"
CC=gcc
CFLAGS="-std=gnu11 -O1 -g -DNDEBUG -DROOTSIM_VERIF -DROOTSIM_VERSION=\"verif\" -I$REPO/src -w"
LDX=""
if [ "$VARIANT" = asan ]; then
  CC=clang
  CFLAGS="$CFLAGS -fsanitize=address,undefined -fno-omit-frame-pointer -fno-sanitize-recover=undefined"
  LDX="-fsanitize=address,undefined"
fi
cd "$REPO/src"
SRCS=$(find . -name '*.c' ! -path './distributed/mpi.c' | sort)
pids=()
for f in $SRCS; do
  o="$OUT/obj/$(echo "$f" | sed 's#^\./##; s#/#_#g; s#\.c$#.o#')"
  $CC $CFLAGS -c "$f" -o "$o" &
  pids+=($!)
done
for p in "${pids[@]}"; do wait "$p"; done
cd "$HERE/harness"
$CC $CFLAGS -c vsched.c -o "$OUT/obj/h_vsched.o"
$CC $CFLAGS -c twh.c -o "$OUT/obj/h_twh.o"
$CC $LDX -o "$OUT/twh" $(ls "$OUT"/obj/*.o | grep -v '/d_') -Wl,--wrap=pthread_create,--wrap=pthread_join,--wrap=gettimeofday -lm -lpthread
# component drivers (link the same core objects, own verif_hook, real threads)
for d in termdrv topodrv randdrv; do
  if [ -f "$d.c" ]; then
    $CC $CFLAGS -c $d.c -o "$OUT/obj/d_$d.o"
    $CC $LDX -o "$OUT/$d" $(ls "$OUT"/obj/*.o | grep -v '/h_\|/d_') "$OUT/obj/d_$d.o" -lm -lpthread
  fi
done
if [ -f orderdrv.c ]; then
  $CC $CFLAGS -c orderdrv.c -o "$OUT/obj/d_orderdrv.o"
  $CC $LDX -o "$OUT/orderdrv" $(ls "$OUT"/obj/*.o | grep -v '/h_\|/d_\|datatypes_msg_queue') "$OUT/obj/d_orderdrv.o" -lm -lpthread
fi
if [ -f partdrv.c ]; then
  $CC $CFLAGS -c partdrv.c -o "$OUT/obj/d_partdrv.o"
  $CC $LDX -o "$OUT/partdrv" $(ls "$OUT"/obj/*.o | grep -v '/h_\|/d_') "$OUT/obj/d_partdrv.o" -lm -lpthread
fi
if [ -f mqdrv.c ]; then
  $CC $CFLAGS -c mqdrv.c -o "$OUT/obj/d_mqdrv.o"
  $CC $LDX -o "$OUT/mqdrv" $(ls "$OUT"/obj/*.o | grep -v '/h_twh\|/d_') "$OUT/obj/d_mqdrv.o" -Wl,--wrap=pthread_create,--wrap=pthread_join -lm -lpthread
fi
if [ -f bardrv.c ]; then
  $CC $CFLAGS -c bardrv.c -o "$OUT/obj/d_bardrv.o"
  $CC $LDX -o "$OUT/bardrv" $(ls "$OUT"/obj/*.o | grep -v '/h_twh\|/d_') "$OUT/obj/d_bardrv.o" -Wl,--wrap=pthread_create,--wrap=pthread_join -lm -lpthread
fi
if [ -f ckptdrv.c ]; then
  # the allocator rebuilt with small arena constants (guarded override in mm/buddy/buddy.h)
  SM="-DROOTSIM_VERIF_B_TOTAL_EXP=8U -DROOTSIM_VERIF_B_BLOCK_EXP=4U"
  mkdir -p "$OUT/objs"
  for f in mm/buddy/buddy.c mm/buddy/ckpt.c mm/buddy/multi.c; do
    $CC $CFLAGS $SM -c "$REPO/src/$f" -o "$OUT/objs/$(basename $f .c).o"
  done
  $CC $CFLAGS $SM -c ckptdrv.c -o "$OUT/objs/ckptdrv.o"
  $CC $LDX -o "$OUT/ckptdrv" $(ls "$OUT"/obj/*.o | grep -v '/h_\|/d_\|mm_buddy_') "$OUT"/objs/*.o -Wl,--wrap=malloc,--wrap=free -lm -lpthread
fi
echo "built $OUT/twh ($VARIANT)"
