#!/bin/bash
# seed_matrix.sh [tier]: every stored seeded change against the check of its property (scratch copies, /repo untouched)
TIER=${1:-quick}
cd /verif
for d in seeded/*/; do
  id=$(basename $d)
  prop=$(python3 -c "import json;print(json.load(open('$d/meta.json'))['property'])")
  p=$d/patch.diff; [ -f $d/patch_head.diff ] && p=$d/patch_head.diff
  s=$(date +%s)
  out=$(lib/seedtest.sh $p $prop $TIER 2>&1)
  rc=$(echo "$out" | grep -o "^rc=[0-9]*" | head -1)
  echo "== $id $prop $rc $(( $(date +%s)-s ))s $(echo "$out" | grep -E "VIOLATION|MACHINERY|apply" | head -1 | cut -c1-160)"
done
