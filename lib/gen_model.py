#!/usr/bin/env python3
"""gen_model.py --seed S --out DIR [--family F] : emit model.txt (for the C interpreter) and
model.json (the same tables, for TLC).  A model is a finite-state, table-driven set of LPs:
state s in 0..K-1, event types 1..T, optional library draw, sends (dest rule, delay, type, payload).
Validity (the API contract): a zero-delay send carries a strictly smaller type than the event being
processed, so that it never sorts before it (larger type sorts first on equal timestamps)."""
import argparse, json, os, random

FAMILIES = ("mixed", "ties", "zerodelay", "fanout", "nonmono", "time0", "initdone", "sparse", "single", "chain", "pingpong", "relay", "burst", "laggard", "backlog")


def gen_chain(seed, size):
    """a long dependency chain hopping between the LPs of two threads, and a trigger LP (owned by a third thread when
    there are three) whose only event is a straggler for the head of the chain: a rollback cascade of one anti-message
    per hop walks down the whole chain"""
    r = random.Random(seed * 31 + 7)
    H = r.choice([6, 8, 8]) if size == "small" else r.choice([8, 10])
    n = 3 * H
    payloads = [{"size": 0, "padd": 0, "bytes": []}, {"size": 8, "padd": 1, "bytes": [r.randrange(256) for _ in range(8)]}]
    # payload 1 adds 1 to the state: every LP is in state 1 after its first hop and stops forwarding, so that once the cascade of
    # anti-messages starts nothing else is pending at low timestamps (the situation in which an accumulator that misses extractions shows)
    hop = {"drule": H, "drule2": n - H + 1, "delay": 1, "ty": 2, "pid": r.choice([1, 1, 1, 0])}
    trans = []
    for s_ in range(2):
        trans.append([
            {"draw": 0, "lib": 0, "mem": -1, "out": [{"ns": s_, "sends": [{"drule": 1, "drule2": 1, "delay": 1, "ty": 3, "pid": 0}]}]},   # type 1: seed
            # type 2: hop; once the trigger has been delivered (state 1) the head of the chain stops forwarding, so that
            # after the rollback only the cascade of anti-messages is left in the system
            {"draw": 0, "lib": 0, "mem": r.choice([-1, 2, 4]), "out": [{"ns": s_, "sends": [dict(hop)] if s_ == 0 or r.random() < 0.3 else []}]},
            {"draw": 0, "lib": 0, "mem": -1, "out": [{"ns": 1, "sends": []}]},                                                         # type 3: trigger
        ])
    init = [[] for _ in range(n)]
    init[0] = [{"drule": 0, "drule2": 0, "delay": 1, "ty": 2, "pid": 0}]
    init[n - 1] = [{"drule": 0, "drule2": 0, "delay": 0, "ty": 1, "pid": 0}]
    laps = r.choice([2, 3, 4])
    return {"seed": seed, "family": "chain", "nlps": n, "K": 2, "T": 3, "P": 2, "split": H, "need": [1] * n, "cap": [laps] * n,
            "endmask": [1, 1], "payloads": payloads, "init": init, "trans": trans}


def micro(name):
    """the micro-models explored exhaustively by TimeWarpMC (spec/TimeWarpMC_m1.tla, _m2.tla), for the real code"""
    def snd(off, delay, ty):
        return {"drule": off, "drule2": off, "delay": delay, "ty": ty, "pid": 0}
    def tr(ns, sends):
        return {"draw": 0, "lib": 0, "mem": 0, "out": [{"ns": ns, "sends": sends}]}
    pay = [{"size": 0, "padd": 0, "bytes": []}]
    if name == "m1":
        return {"seed": 0, "family": "micro_m1", "nlps": 2, "K": 2, "T": 1, "P": 1, "split": 2, "need": [99, 99], "cap": [99, 99], "endmask": [1, 1],
                "payloads": pay, "init": [[snd(0, 1, 1)], [snd(0, 3, 1)]],
                "trans": [[tr(1, [snd(1, 1, 1)])], [tr(1, [])]]}
    if name == "m2":
        return {"seed": 0, "family": "micro_m2", "nlps": 3, "K": 2, "T": 2, "P": 1, "split": 3, "need": [99] * 3, "cap": [99] * 3, "endmask": [1, 1],
                "payloads": pay, "init": [[snd(0, 1, 2)], [], [snd(0, 2, 1), snd(0, 4, 1)]],
                "trans": [[tr(1, [snd(2, 1, 1)]), tr(0, [snd(2, 0, 1)])], [tr(1, []), tr(1, [])]]}
    if name == "m3":   # spec/TimeWarpMC_m3.tla: straggler against a history entry cancelled in place
        def snd3(off, delay, ty):
            return {"drule": off, "drule2": off, "delay": delay, "ty": ty, "pid": 0}
        return {"seed": 0, "family": "micro_m3", "nlps": 3, "K": 2, "T": 5, "P": 1, "split": 3, "need": [99] * 3, "cap": [99] * 3, "endmask": [1, 1],
                "payloads": pay, "init": [[snd3(0, 4, 2)], [], [snd3(0, 2, 4)]],
                "trans": [[tr(0, []), tr(0, [snd3(1, 1, 1)]), tr(0, []), tr(0, [snd3(1, 1, 5), snd3(2, 3, 3)]), tr(1, [])],
                          [tr(1, []), tr(1, []), tr(1, []), tr(1, []), tr(1, [])]]}
    if name == "m4":   # spec/TimeWarpMC_m4.tla: a quiet LP (two events of its own, a third from the other LP): fossil collection that finds nothing new
        return {"seed": 0, "family": "micro_m4", "nlps": 2, "K": 2, "T": 2, "P": 1, "split": 2, "need": [99, 99], "cap": [99, 99], "endmask": [1, 1],
                "payloads": pay, "init": [[snd(0, 2, 1), snd(0, 5, 1)], [snd(0, 3, 2)]],
                "trans": [[tr(1, []), tr(0, [snd(1, 1, 1)])], [tr(0, []), tr(1, [])]]}
    if name == "m5":   # spec/TimeWarpMC_m5.tla: rollback that undoes a send to the LP itself and a send to an LP of the same thread
        return {"seed": 0, "family": "micro_m5", "nlps": 3, "K": 2, "T": 3, "P": 1, "split": 3, "need": [99] * 3, "cap": [99] * 3, "endmask": [1, 1],
                "payloads": pay, "init": [[snd(0, 3, 1)], [], [snd(0, 1, 2)]],
                "trans": [[tr(0, [snd(0, 1, 3), snd(1, 2, 3)]), tr(0, [snd(1, 1, 3)]), tr(1, [])],
                          [tr(1, [snd(1, 3, 3)]), tr(1, [snd(1, 1, 3)]), tr(1, [])]]}
    if name == "d1":   # spec/TimeWarpMC_d1.tla: the LPs of m1 on two ranks
        return dict(micro("m1"), family="micro_d1")
    if name == "d2":   # spec/TimeWarpMC_d2.tla: 3 LPs over 2 ranks (rank 0: LP0, LP1 on two threads; rank 1: LP2)
        return {"seed": 0, "family": "micro_d2", "nlps": 3, "K": 2, "T": 3, "P": 1, "split": 3, "need": [99] * 3, "cap": [99] * 3, "endmask": [1, 1],
                "payloads": pay, "init": [[snd(0, 1, 2)], [], [snd(0, 3, 1)]],
                "trans": [[tr(1, [snd(2, 1, 3)]), tr(1, [snd(2, 1, 1)]), tr(0, [])], [tr(1, []), tr(1, []), tr(1, [])]]}
    raise ValueError(name)


def gen_pingpong(seed, size):
    """one token bouncing between the two halves of the LPs (two threads or two ranks) with nothing else pending: the GVT has to
    follow the token; optionally a second, slower token"""
    r = random.Random(seed * 13 + 5)
    half = r.choice([1, 2, 3])
    n = 2 * half
    hops = r.choice([12, 20, 30]) if size == "small" else r.choice([40, 60])
    pay = [{"size": 0, "padd": 0, "bytes": []}, {"size": 40, "padd": 1, "bytes": [r.randrange(256) for _ in range(40)]}]
    def snd(off, delay, ty, pid=0):
        return {"drule": off, "drule2": off, "delay": delay, "ty": ty, "pid": pid}
    hop = {"drule": half, "drule2": half + (1 if half > 1 else 0), "delay": r.choice([1, 1, 2]), "ty": 1, "pid": r.choice([0, 1])}
    hop["drule2"] = (n - half + (1 if half > 1 else 0)) % n or half
    trans = [[{"draw": 0, "lib": 0, "mem": r.choice([0, -1]), "out": [{"ns": r.randrange(2), "sends": [dict(hop)]}]}] for _ in range(2)]
    init = [[] for _ in range(n)]
    init[0] = [snd(0, 1, 1)]
    if r.random() < 0.4:
        init[n - 1] = [snd(0, r.choice([3, 7]), 1)]
    return {"seed": seed, "family": "pingpong", "nlps": n, "K": 2, "T": 1, "P": 2, "split": half, "need": [2] * n, "cap": [max(2, hops // n)] * n,
            "endmask": [1, 1], "payloads": pay, "init": init, "trans": trans}


def gen_relay(seed, size):
    """zero-delay relays: an event is forwarded unchanged (same timestamp, type and payload) from LP to LP, so that events with
    identical order keys for different (and the same) LPs coexist; plus ordinary delayed traffic"""
    r = random.Random(seed * 17 + 11)
    n = r.choice([3, 4, 6])
    K, T = 2, 2
    pay = [{"size": 0, "padd": 0, "bytes": []}, {"size": 8, "padd": 1, "bytes": [r.randrange(256) for _ in range(8)]},
           {"size": 40, "padd": 0, "bytes": [r.randrange(256) for _ in range(40)]}]
    def snd(off, delay, ty, pid):
        return {"drule": off, "drule2": off, "delay": delay, "ty": ty, "pid": pid}
    trans = []
    for s_ in range(K):
        row = []
        for ty in range(1, T + 1):
            sends = [snd(r.choice([1, 1, 2]) % n or 1, 0, 0, -1)]           # forward unchanged, zero delay
            if r.random() < 0.6:
                sends.append(snd(r.randrange(n), r.choice([1, 2]), r.randint(1, T), r.randrange(3)))
            row.append({"draw": 0, "lib": 0, "mem": r.choice([-1, 0]), "out": [{"ns": r.randrange(K), "sends": sends}]})
        trans.append(row)
    init = [[snd(0, r.choice([0, 1, 1, 2]), r.randint(1, T), r.randrange(3))] if r.random() < 0.7 or lp == 0 else [] for lp in range(n)]
    need = [r.randint(2, 4) for _ in range(n)]
    return {"seed": seed, "family": "relay", "nlps": n, "K": K, "T": T, "P": 3, "split": n, "need": need, "cap": [x + r.randint(1, 3) for x in need],
            "endmask": [1] * K, "payloads": pay, "init": init, "trans": trans}


def gen_burst(seed, size):
    """several events with the same timestamp sent in one go to one LP of the other half (another rank in multi-rank runs) and
    cancelled together by one rollback while the receiver is still busy with earlier work: several (early) anti-messages are
    pending at one LP at once and are matched in an order that differs from the order they were stored in"""
    r = random.Random(seed * 29 + 3)
    half = r.choice([2, 2, 3])
    n = 2 * half
    B = r.choice([2, 3, 3, 4])
    ticks = r.choice([25, 40]) if size == "small" else r.choice([60, 90])
    D = ticks + r.choice([10, 20])
    pay = [{"size": 0, "padd": 0, "bytes": []}, {"size": 8, "padd": 0, "bytes": [r.randrange(256) for _ in range(8)]},
           {"size": 40, "padd": 0, "bytes": [r.randrange(256) for _ in range(40)]}]
    def snd(off, delay, ty, pid=0, off2=None):
        return {"drule": off, "drule2": off if off2 is None else off2, "delay": delay, "ty": ty, "pid": pid}
    same = r.random() < 0.5
    burst0 = [snd(half, D, 3, 0 if same else r.randrange(3)) for _ in range(B)]
    burst1 = [snd(half, D + r.choice([0, 1]), 3, r.randrange(3)) for _ in range(r.choice([0, 1, 2]))]
    def tr(ns, sends):
        return {"draw": 0, "lib": 0, "mem": r.choice([-1, 0]), "out": [{"ns": ns, "sends": sends}]}
    trans = []
    for s_ in range(2):
        trans.append([tr(1, []),                                   # type 1: cancel (the straggler for the sender)
                      tr(s_, burst0 if s_ == 0 else burst1),       # type 2: burst
                      tr(s_, []),                                  # type 3: absorb
                      tr(s_, [snd(0, 1, 4)]),                      # type 4: tick (self, until the cap)
                      tr(s_, [snd(1, 1, 1, 0, 1)])])               # type 5: trigger (LP n-1 -> LP 0)
    init = [[] for _ in range(n)]
    init[0] = [snd(0, 5, 2)]
    init[half] = [snd(0, 1, 4)]
    init[n - 1] = init[n - 1] + [snd(0, 1, 5)]
    need = [0] * n
    cap = [4] * n
    need[0] = 2
    cap[half] = ticks
    need[half] = ticks + len(burst1) + (1 if half == n - 1 else 0)
    need[n - 1] = max(need[n - 1], 1) if n - 1 != half else need[half]
    cap[n - 1] = max(cap[n - 1], 2) if n - 1 != half else cap[half]
    return {"seed": seed, "family": "burst", "nlps": n, "K": 2, "T": 5, "P": 3, "split": half, "need": need, "cap": cap,
            "endmask": [1, 1], "payloads": pay, "init": init, "trans": trans}


def gen_laggard(seed, size):
    """one LP far behind with a long backlog of its own (a self-scheduling tick), the other LPs idle from the start: in every GVT round
    the idle threads contribute infinity and only the busy thread holds the GVT down (the situation in which a lost or overwritten
    contribution of one thread shows at once).  The busy LP is the last one (highest thread), optionally it also pings LP 0 rarely."""
    r = random.Random(seed * 37 + 1)
    n = r.choice([2, 3, 4])
    ticks = r.choice([80, 120]) if size == "small" else r.choice([400, 600])
    pay = [{"size": 0, "padd": 0, "bytes": []}]
    def snd(off, delay, ty):
        return {"drule": off, "drule2": off, "delay": delay, "ty": ty, "pid": 0}
    tick = {"draw": 0, "lib": 0, "mem": -1, "out": [{"ns": 0, "sends": [snd(0, 1, 1)]}]}
    trans = [[tick], [tick]]
    init = [[] for _ in range(n)]
    init[n - 1] = [snd(0, 1, 1)]
    need = [0] * n
    cap = [2] * n
    cap[n - 1] = ticks
    need[n - 1] = ticks + 1
    return {"seed": seed, "family": "laggard", "nlps": n, "K": 2, "T": 1, "P": 1, "split": n, "need": need, "cap": cap,
            "endmask": [1, 1], "payloads": pay, "init": init, "trans": trans}


def gen_backlog(seed, size):
    """an LP whose events send nothing and lie far apart (fed, in timestamp order and far ahead, by a feeder LP), next to one LP that
    ticks in steps of 1 and holds the GVT down: several GVT rounds fall between two events of the quiet LP, so that a fossil collection
    often finds NOTHING new below the GVT while the history left by the previous collection starts with an uncommitted event
    (directly followed by a checkpoint when one is taken after every event).  LP 0: quiet, LP 1: feeder, LP 2: ticker."""
    r = random.Random(seed * 41 + 3)
    gap = r.choice([60, 100])
    ticks = r.choice([90, 120]) if size == "small" else r.choice([240, 300])
    feeds = ticks // 3     # the quiet LP has about as many events as the ticker: with one thread each they are busy for the same time
    pay = [{"size": 0, "padd": 0, "bytes": []}]
    def snd(off, delay, ty):
        return {"drule": off, "drule2": off, "delay": delay, "ty": ty, "pid": 0}
    def tr(ns, sends, mem=-1):
        return {"draw": 0, "lib": 0, "mem": mem, "out": [{"ns": ns, "sends": sends}]}
    tick = tr(0, [snd(0, 1, 1)])
    quiet = tr(1, [], r.choice([-1, 2]))
    feed = tr(0, [snd(2, r.randint(1, 5), 2), snd(2, gap + r.randint(0, 3), 2), snd(2, 2 * gap + r.randint(0, 3), 2), snd(0, 3 * gap, 3)])
    trans = [[tick, quiet, feed], [tick, quiet, feed]]
    init = [[], [snd(0, 1, 3)], [snd(0, 1, 1)]]
    need = [3 * feeds + 1, feeds + 1, ticks + 1]
    cap = [3 * feeds + 2, feeds, ticks]
    return {"seed": seed, "family": "backlog", "nlps": 3, "K": 2, "T": 3, "P": 1, "split": 3, "need": need, "cap": cap,
            "endmask": [1, 1], "payloads": pay, "init": init, "trans": trans}


def gen(seed, family="mixed", size="small"):
    if family == "backlog":
        return gen_backlog(seed, size)
    if family == "laggard":
        return gen_laggard(seed, size)
    if family == "burst":
        return gen_burst(seed, size)
    if family == "relay":
        return gen_relay(seed, size)
    if family == "pingpong":
        return gen_pingpong(seed, size)
    if family.startswith("micro_"):
        return micro(family[6:])
    if family == "longties":
        # a `ties` model (all delays 0/1: many simultaneous events per LP) whose non-empty payloads all have one size above the 32 bytes
        # stored inside struct lp_msg, share everything but the last byte, i.e. are ordered only by the part kept in the trailing
        # extra payload (seeded change C10c / C01a: comparison cut at 32 bytes)
        m = gen(seed, "ties", size)
        rr = random.Random(seed * 31 + 3)
        sz = rr.choice([33, 40, 40, 64, 100])
        base = [rr.randrange(256) for _ in range(sz)]
        for i, pl in enumerate(m["payloads"]):
            if i:
                pl["size"] = sz
                pl["bytes"] = base[:-1] + [(base[-1] + i) % 256]
        m["family"] = "longties"
        return m
    if family == "chain":
        return gen_chain(seed, size)
    r = random.Random(seed * 7919 + (FAMILIES.index(family) if family in FAMILIES else 99))
    if family == "single":
        nlps = 1
    elif family == "sparse":
        nlps = r.choice([2, 3])
    else:
        nlps = r.choice([2, 3, 4, 5, 6, 8] if size == "small" else [4, 5, 6, 8])
    K = r.choice([3, 4, 5, 6])
    T = r.choice([2, 3, 4])
    maxdelay = {"ties": 1, "zerodelay": 2}.get(family, r.choice([2, 3, 5]))
    # payload table: sizes 0, <=32, >32; contents colliding on prefixes
    psizes = [0, 1, 8, 8, 32, 40, 40, 100]
    base = [r.randrange(256) for _ in range(128)]
    payloads = []
    for i, sz in enumerate(psizes):
        b = list(base[:sz])
        if sz:
            b[-1] = (b[-1] + i) % 256  # same prefix, differ in the last byte
        payloads.append({"size": sz, "padd": r.randrange(K), "bytes": b})
    P = len(payloads)
    need_lo, need_hi = (4, 9) if size == "small" else (10, 22)
    need = [r.randint(need_lo, need_hi) for _ in range(nlps)]
    cap = [n + r.randint(1, 4) for n in need]
    endmask = [1] * K
    if family == "nonmono":
        endmask = [r.choice([0, 1, 1]) for _ in range(K)]
        if not any(endmask):
            endmask[0] = 1
    if family == "time0":
        # some LPs satisfy their predicate at their very first event, which carries timestamp 0
        for i in range(nlps):
            if i % 2 == 0:
                need[i] = 1
                cap[i] = r.randint(3, 6)
            else:
                need[i] += 6
                cap[i] = need[i] + 4
    if family == "initdone":
        for i in range(nlps):
            if r.random() < 0.5:
                need[i] = 0
        endmask[0] = 1

    def mk_send(cur_ty, allow_zero=True):
        drule = r.choice([0, 0, 1, 1, 2, r.randrange(nlps)]) % nlps
        ty = r.randint(1, T)
        delay = r.randint(0, maxdelay)
        if family == "ties":
            delay = r.choice([0, 1, 1, 1])
        if delay == 0:
            if not allow_zero or cur_ty <= 1:
                delay = 1
            else:
                ty = r.randint(1, cur_ty - 1)
        return {"drule": drule, "delay": delay, "ty": ty, "pid": r.randrange(P)}

    init = []
    for lp in range(nlps):
        n = r.choice([1, 1, 2, 3]) if family != "sparse" else (1 if lp == 0 else 0)
        sends = []
        for _ in range(n):
            s = mk_send(T + 1, allow_zero=False)
            # initial events may carry timestamp 0 (any type sorts after LP_INIT=65534)
            s["delay"] = r.choice([0, 0, 1, 2, 3]) if family in ("time0", "mixed", "ties") else r.randint(1, 3)
            if family == "time0":
                s["delay"] = 0
                s["drule"] = 0
            sends.append(s)
        init.append(sends)
    if not any(init):
        init[0] = [mk_send(T + 1, allow_zero=False)]

    trans = []
    for s in range(K):
        row = []
        for ty in range(1, T + 1):
            draw = r.choice([0, 0, 2, 3]) if family != "ties" else r.choice([0, 2])
            lib = r.choice([0, 0, 0, 1, 2, 3, 4, 5, 6])
            mem = r.choice([-1, -1, -1, 2, 4, 5])
            outs = []
            for d in range(max(1, draw)):
                if family == "fanout":
                    ns_ = r.choice([1, 2, 2, 3])
                elif family == "sparse":
                    ns_ = r.choice([1, 1, 1, 2])
                else:
                    ns_ = r.choice([0, 1, 1, 1, 2])
                outs.append({"ns": r.randrange(K), "sends": [mk_send(ty) for _ in range(ns_)]})
            row.append({"draw": draw, "lib": lib, "mem": mem, "out": outs})
        trans.append(row)
    for sends in init:
        for sd in sends:
            sd["drule2"] = sd["drule"]
    for row in trans:
        for e in row:
            for o in e["out"]:
                for sd in o["sends"]:
                    sd["drule2"] = sd["drule"]
    return {"seed": seed, "family": family, "nlps": nlps, "K": K, "T": T, "P": P, "split": nlps, "need": need, "cap": cap,
            "endmask": endmask, "payloads": payloads, "init": init, "trans": trans}


def to_txt(m):
    o = [m["nlps"], m["K"], m["T"], m["P"], m["split"]]
    o += m["need"] + m["cap"] + m["endmask"]
    for p in m["payloads"]:
        o += [p["size"], p["padd"]] + p["bytes"]
    for sends in m["init"]:
        o.append(len(sends))
        for s in sends:
            o += [s["drule"], s["drule2"], s["delay"], s["ty"], s["pid"]]
    for row in m["trans"]:
        for e in row:
            o += [e["draw"], e["lib"], e["mem"]]
            for out in e["out"]:
                o += [out["ns"], len(out["sends"])]
                for s in out["sends"]:
                    o += [s["drule"], s["drule2"], s["delay"], s["ty"], s["pid"]]
    return " ".join(str(x) for x in o) + "\n"


def main():
    ap = argparse.ArgumentParser()
    ap.add_argument("--seed", type=int, default=1)
    ap.add_argument("--family", default="mixed")
    ap.add_argument("--size", default="small")
    ap.add_argument("--out", required=True)
    a = ap.parse_args()
    m = gen(a.seed, a.family, a.size)
    os.makedirs(a.out, exist_ok=True)
    open(os.path.join(a.out, "model.txt"), "w").write(to_txt(m))
    json.dump(m, open(os.path.join(a.out, "model.json"), "w"))


if __name__ == "__main__":
    main()
