"""Common machinery of the /verif checks: scratch handling, rebuild of the hooked core from /repo's
working tree, TLC runs (model checking and trace validation), evidence files, known findings."""
import json, os, re, shutil, subprocess, sys, tempfile, time, concurrent.futures as cf

VERIF = os.path.dirname(os.path.dirname(os.path.abspath(__file__)))
SPEC = os.path.join(VERIF, "spec")
REPO = os.environ.get("VERIF_REPO", "/repo")
JAR = "/opt/veriftools/tla/tla2tools.jar:/opt/veriftools/tla/CommunityModules-deps.jar"
NPROC = int(os.environ.get("VERIF_JOBS", str(os.cpu_count() or 8)))
# evidence and replays normally go to /verif/evidence and /verif/replays; experiments against a modified copy of the sources
# (VERIF_REPO=<copy>) redirect them with VERIF_OUT so that the files describing the real tree are not overwritten
OUTDIR = os.environ.get("VERIF_OUT", VERIF)


class MachineryError(Exception):
    pass


def scratch():
    base = os.environ.get("VERIF_SCRATCH")
    if base:
        os.makedirs(base, exist_ok=True)
        return tempfile.mkdtemp(prefix="run_", dir=base)
    return tempfile.mkdtemp(prefix="verif_")


def sh(cmd, timeout=600, env=None, cwd=None):
    e = dict(os.environ)
    if env:
        e.update(env)
    p = subprocess.run(cmd, shell=isinstance(cmd, str), stdout=subprocess.PIPE, stderr=subprocess.STDOUT, timeout=timeout,
                       env=e, cwd=cwd, text=True, errors="replace")
    return p.returncode, p.stdout


def build(outdir, variant="plain", extra=""):
    rc, out = sh([os.path.join(VERIF, "lib", "build.sh"), outdir, variant] + ([extra] if extra else []), timeout=900)
    if rc != 0:
        raise MachineryError("build of the hooked core failed:\n" + out[-3000:])
    return outdir


# ------------------------------------------------------------------ TLC
def tlc(spec, cfg, env=None, workers=1, metadir=None, timeout=600, extra=None, heap="2g", simulate=None, depth=None, ok_timeout=False):
    """run TLC; returns dict(rc, out, states, distinct, depth, result, violated, error)"""
    md = metadir or tempfile.mkdtemp(prefix="tlcmd_")
    cmd = ["java", "-XX:+UseSerialGC" if workers == 1 else "-XX:+UseParallelGC", "-Xmx" + heap, "-Xss64m", "-cp", JAR,
           "tlc2.TLC", "-workers", str(workers), "-metadir", md, "-config", cfg]
    if simulate:
        cmd += ["-simulate", "num=%d" % simulate]
        if depth:
            cmd += ["-depth", str(depth)]
    if extra:
        cmd += extra
    cmd.append(spec)
    t0 = time.time()
    try:
        rc, out = sh(cmd, timeout=timeout, env=env, cwd=SPEC)
    except subprocess.TimeoutExpired as ex:
        shutil.rmtree(md, ignore_errors=True)
        po = ex.stdout or ""
        if isinstance(po, bytes):
            po = po.decode(errors="replace")
        pm = re.findall(r"([\d,]+) states generated.*?([\d,]+) distinct states found", po)
        return {"rc": -9, "out": po[-4000:], "timeout": True, "states": int(pm[-1][0].replace(",", "")) if pm else 0,
                "distinct": int(pm[-1][1].replace(",", "")) if pm else 0, "depth": 0, "result": None, "violated": None, "error": "timeout",
                "wall": time.time() - t0}
    shutil.rmtree(md, ignore_errors=True)
    r = {"rc": rc, "out": out, "timeout": False, "wall": time.time() - t0, "result": None, "violated": None, "error": None}
    m = re.search(r"(\d+) states generated, (\d+) distinct states found", out)
    r["states"] = int(m.group(1)) if m else 0
    r["distinct"] = int(m.group(2)) if m else 0
    m = re.search(r"depth of the complete state graph search is (\d+)", out)
    r["depth"] = int(m.group(1)) if m else 0
    m = re.search(r"Invariant (\S+) is violated", out)
    if m:
        r["violated"] = m.group(1)
    m = re.search(r"Temporal properties were violated|Action property (\S+) is violated", out)
    if m and not r["violated"]:
        r["violated"] = m.group(1) or "temporal"
    if "Error:" in out and not r["violated"]:
        em = re.search(r"Error: (.*)", out)
        r["error"] = em.group(1) if em else "error"
    return r


def parse_result(out):
    """parse the <<"RESULT", reached, total, <<[p |-> .., w |-> .., at |-> ..]>>>> line(s) printed by a trace spec"""
    i = out.find('"RESULT"')
    if i < 0:
        return None
    j = out.find("Model checking completed", i)
    blob = out[i:j if j > 0 else len(out)]
    nums = re.findall(r",\s*(\d+)\s*,\s*(\d+)", blob)
    reached, total = (int(nums[0][0]), int(nums[0][1])) if nums else (0, 0)
    bad = []
    for m in re.finditer(r'\[([^\[\]]*\|->[^\[\]]*)\]', blob, re.S):
        rec = m.group(1)
        mp = re.search(r'p \|->\s*"([^"]+)"', rec)
        mw = re.search(r'w \|->\s*"([^"]*)"', rec, re.S)
        ma = re.search(r'at \|->\s*(\d+)', rec)
        if mp and mw and ma:
            bad.append({"p": mp.group(1), "w": re.sub(r"\s+", " ", mw.group(2 - 1)), "at": int(ma.group(1))})
    return {"reached": reached, "total": total, "bad": bad}


def validate_trace(spec, cfg, trace, model=None, ref=None, timeout=600):
    env = {"TRACE": trace}
    if model:
        env["MODEL"] = model
    if ref:
        env["REF"] = ref
    r = tlc(spec, cfg, env=env, workers=1, timeout=timeout)
    res = parse_result(r["out"])
    r["res"] = res
    if res is None:
        r["verdict"] = "machinery"
    elif res["bad"]:
        r["verdict"] = "bad"
    elif res["reached"] < res["total"]:
        r["verdict"] = "rejected"
    elif r["violated"]:
        r["verdict"] = "invariant"
    else:
        r["verdict"] = "ok"
    return r


# ------------------------------------------------------------------ evidence and findings
def known_findings():
    p = os.path.join(VERIF, "known_findings.json")
    if not os.path.exists(p):
        return {"findings": [], "fixed": []}
    return json.load(open(p))


def write_evidence(pid, tier, seed, level, coverage, wall, violations=0, assumptions=None):
    os.makedirs(os.path.join(OUTDIR, "evidence"), exist_ok=True)
    ev = {"property_id": pid, "tier": tier, "seed": int(seed), "level": level, "coverage": coverage,
          "assumptions": assumptions or [], "wall_s": round(wall, 2), "violations": int(violations)}
    tmp = os.path.join(OUTDIR, "evidence", pid + ".json.tmp")
    json.dump(ev, open(tmp, "w"), indent=1)
    os.replace(tmp, os.path.join(OUTDIR, "evidence", pid + ".json"))
    return ev


def save_replay(pid, name, files, meta):
    d = os.path.join(OUTDIR, "replays", pid, name)
    os.makedirs(d, exist_ok=True)
    for f in files:
        if f and os.path.exists(f):
            shutil.copy(f, d)
    json.dump(meta, open(os.path.join(d, "replay.json"), "w"), indent=1)
    return d


def pmap(fn, items, jobs=None):
    out = []
    with cf.ThreadPoolExecutor(max_workers=jobs or NPROC) as ex:
        for r in ex.map(fn, items):
            out.append(r)
    return out
