#!/bin/bash
# confirm_seed.sh <worktree> <seed-id> <property>: confirm a seeded change (compiles, suite passes, demo fails with / passes without),
# then store it under /verif/seeded/<seed-id>/
WT=$1; ID=$2; PROP=$3
DST=/verif/seeded/$ID
mkdir -p $DST
git -C $WT diff -- src > $DST/patch.diff
rm -rf $DST/demo; cp -r $WT/demo $DST/demo 2>/dev/null
LOG=$DST/confirm.log
: > $LOG
( cd $WT && cmake -G Ninja -S $WT -B $WT/_build -DCMAKE_BUILD_TYPE=RelWithDebInfo >/dev/null 2>&1 && cmake --build $WT/_build 2>&1 | grep -E "warning:|error:" | grep -v -i doxygen | head -5 ; ctest --test-dir $WT/_build -j4 --timeout 900 2>&1 | tail -8 ; echo "--- rerun of failed tests alone (load-induced 60 s per-test timeouts)"; ctest --test-dir $WT/_build --rerun-failed -j1 --timeout 900 2>&1 | tail -6 ) >> $LOG 2>&1
echo "--- demo WITH change" >> $LOG
( cd $WT && timeout 900 bash demo/run.sh > /tmp/demo_$ID.with 2>&1; echo "exit=$?" ) >> $LOG 2>&1
tail -3 /tmp/demo_$ID.with >> $LOG
echo "--- demo WITHOUT change" >> $LOG
( cd $WT && git stash -q && (timeout 900 bash demo/run.sh > /tmp/demo_$ID.without 2>&1; echo "exit=$?"); git stash pop -q ) >> $LOG 2>&1
tail -3 /tmp/demo_$ID.without >> $LOG
rm -f /tmp/demo_$ID.with /tmp/demo_$ID.without
echo done >> $LOG
