"""System-level campaign: generated models x configurations x schedules, every run of the real core
validated by TLC against SeqSim (serial engine) / TimeWarp (parallel engine)."""
import json, os, random, shutil, subprocess, time
import vlib
import gen_model


def run_twh(bdir, args, timeout=120, binary="twh"):
    try:
        p = subprocess.run([os.path.join(bdir, binary)] + [str(a) for a in args], stdout=subprocess.PIPE,
                           stderr=subprocess.STDOUT, timeout=timeout, text=True, errors="replace")
        return p.returncode, p.stdout
    except subprocess.TimeoutExpired:
        return -9, "timeout"


def hook_points():
    """numeric values of enum verif_point in the tree under test"""
    import re
    t = open(os.path.join(vlib.REPO, "src", "verif", "hooks.h")).read()
    m = re.search(r"enum verif_point \{(.*?)\};", t, re.S)
    names = [x.strip().split("=")[0].strip() for x in re.sub(r"//.*", "", m.group(1)).split(",") if x.strip()]
    return {n: i for i, n in enumerate(names)}


def cfg_args(c):
    a = ["--threads", c.get("threads", 2), "--ckpt", c.get("ckpt", 0), "--batch", c.get("batch", 1),
         "--gvt-period", c.get("period", 0), "--seed", c.get("sseed", 1), "--switch", c.get("switch", "1/4"),
         "--policy", c.get("policy", 0), "--budget", c.get("budget", 3000000)]
    if c.get("term"):
        a += ["--term-time", c["term"]]
    if c.get("stop_at"):
        a += ["--stop-at", c["stop_at"]]
    if c.get("stop_lp"):
        a += ["--stop-lp", c["stop_lp"]]
    if c.get("prng"):
        a += ["--prng", c["prng"]]
    if c.get("stats"):
        a += ["--stats", c["stats"]]
    if c.get("ranks"):
        a += ["--ranks", c["ranks"], "--net", c.get("net", 0)]
    if c.get("skew"):
        a += ["--skew", c["skew"]]
        if c.get("skewp"):
            a += ["--skew-point", c["skewp"]]
        if c.get("skewt") is not None:
            a += ["--skew-tag", c["skewt"]]
    if c.get("park"):
        a += ["--park", c["park"]]
    if c.get("delay"):
        a += ["--delay", c["delay"]]
    return a


def sample_cfg(r, emphasis=None):
    c = {"threads": r.choice([1, 2, 2, 3, 3, 4, 6]), "ckpt": r.choice([0, 1, 2, 3, 7]),
         "batch": r.choice([1, 1, 1, 2, 4, 64]), "period": r.choice([0, 0, 50, 400]),
         "sseed": r.randrange(1, 1 << 30), "switch": r.choice(["1/1", "1/2", "1/4", "1/8", "1/24", "1/96"]),
         "policy": r.choice([0, 0, 0, 1, 2, 4]), "skew": r.choice([0, 0, 40, 400])}
    if emphasis:
        c.update(emphasis(r))
    return c


def classify_hang(trace_path):
    """D9 signature: thread 0 opened a GVT round (GvtInitiate) after some thread had already left the main
    loop; at the hang some thread is stuck flushing that round (gvt_msg_drain stage 0 without stage 1)
    while another one waits in the shutdown barrier (stage 1 without stage 2).
    D9-stop: the same final shape after RootsimStop(), where a thread that had not yet joined the open
    round left the main loop because of the stop."""
    exited, st = set(), {}
    try:
        cfg = json.loads(open(trace_path).readline())
        if cfg.get("ranks", 0) > 1 and cfg.get("nlps", 99) < cfg["ranks"]:
            return "D10"
    except Exception:
        pass
    init_after_exit = False
    stop_seen = False
    joined = set()
    for line in open(trace_path):
        try:
            e = json.loads(line)
        except Exception:
            continue
        ev = e.get("e")
        if ev == "LoopExit":
            exited.add(e["thr"])
        elif ev == "DrainStage":
            st.setdefault(e["thr"], set()).add(e.get("st"))
        elif ev == "Stop":
            stop_seen = True
        elif ev == "GvtInitiate":
            joined = set()
            if exited:
                init_after_exit = True
        elif ev == "GvtStart":
            joined.add(e["thr"])
    flushing = [t for t in st if 0 in st[t] and 1 not in st[t]]
    at_barrier = [t for t in st if 1 in st[t] and 2 not in st[t]]
    # threads that joined the last opened round and never got out of it
    in_round = [t for t in joined if not (t in st and 1 in st[t])]
    if at_barrier and (flushing or in_round):
        if init_after_exit and not stop_seen:
            return "D9"
        if any(t not in joined for t in at_barrier):
            return "D9-stop" if stop_seen else "D9"
    return None


def _timed(fn):
    def w(self, *a, **k):
        t0 = time.time()
        try:
            return fn(self, *a, **k)
        finally:
            self.stats.setdefault("phase_wall_s", []).append([fn.__name__ + ":" + str(a[0] if a and isinstance(a[0], str) else ""), round(time.time() - t0, 1)])
    return w


class Campaign:
    def __init__(self, pid, tier, seed, own_ids=None):
        self.pid, self.tier, self.seed = pid, tier, seed
        self.own = set(own_ids or [pid])
        self.scr = vlib.scratch()
        self.bdir = os.path.join(self.scr, "build")
        self.t0 = time.time()
        self.stats = {"models": 0, "serial_traces": 0, "parallel_traces": 0, "states": 0, "lines": 0,
                      "hangs_known": 0, "rollbacks": 0, "fossils": 0, "gvts": 0, "antis": 0, "rantis": 0, "early": 0, "earlymatch": 0, "rantimatch": 0, "distinct_cfg": set()}
        self.violations = []   # of own property
        self.other = []        # failures attributed to other properties (reported by their own checks)
        self.known = []
        self.machinery = []
        self.samples = []
        self.kf = vlib.known_findings()

    def build(self, variant="plain", dist=False):
        vlib.build(self.bdir, variant)
        if dist:
            rc, out = vlib.sh([os.path.join(vlib.VERIF, "lib", "build_dist.sh"), self.bdir], timeout=900)
            if rc != 0:
                raise vlib.MachineryError("build of the multi-rank harness failed:\n" + out[-3000:])

    def close(self):
        if os.environ.get("VERIF_KEEP"):
            print("scratch kept:", self.scr)
            return
        shutil.rmtree(self.scr, ignore_errors=True)

    # -------------------------------------------------------------- one model
    def prepare_model(self, family, mseed, size="small", check_c10=False):
        mdir = os.path.join(self.scr, "m_%s_%d_%s" % (family, mseed, size))
        os.makedirs(mdir, exist_ok=True)
        m = gen_model.gen(mseed, family, size)
        open(os.path.join(mdir, "model.txt"), "w").write(gen_model.to_txt(m))
        json.dump(m, open(os.path.join(mdir, "model.json"), "w"))
        ref = os.path.join(mdir, "serial.ndjson")
        rc, out = run_twh(self.bdir, ["--model", os.path.join(mdir, "model.txt"), "--out", ref, "--serial", "--never-end",
                                      "--quiet-core"])
        if rc != 0:
            return {"dir": mdir, "ok": False, "why": "serial reference run failed rc=%d %s" % (rc, out[-300:]), "family": family,
                    "mseed": mseed}
        v = vlib.validate_trace("SeqSimTrace.tla", "SeqSimTrace.cfg", ref, model=os.path.join(mdir, "model.json"))
        self.stats["serial_traces"] += 1
        self.stats["states"] += v["distinct"]
        ok = v["verdict"] == "ok"
        # (a model with many identical simultaneous events for one LP makes the validation of its serial log branch; when TLC does not finish in
        # its time limit the model is left out - it cannot serve as an oracle - and counted, which is neither a verdict nor a failure of the check)
        skipped = (not ok) and bool(v.get("timeout"))
        return {"dir": mdir, "ok": ok, "skipped": skipped, "why": None if ok else "serial trace not accepted by SeqSim: %s %s" % (
            v["verdict"], json.dumps(v.get("res"))), "family": family, "mseed": mseed, "ref": ref,
            "model": os.path.join(mdir, "model.json"), "txt": os.path.join(mdir, "model.txt"), "nlps": m["nlps"], "v": v}

    # -------------------------------------------------------------- one parallel run
    def run_one(self, md, c, idx):
        trace = os.path.join(md["dir"], "par_%d.ndjson" % idx)
        if getattr(self, "want_stats", False):
            c = dict(c, stats=trace + ".st")
        args = ["--model", md["txt"], "--out", trace] + cfg_args(c)
        rc, out = run_twh(self.bdir, args, binary="twd" if c.get("ranks") else "twh")
        res = {"cfg": c, "trace": trace, "rc": rc, "md": md}
        if rc not in (0, 3, 4):
            res["verdict"] = "machinery"
            res["why"] = "harness exit %d: %s" % (rc, out[-300:])
            return res
        spec, cfgf = getattr(self, "trace_spec", ("TimeWarpTrace.tla", "TimeWarpTrace.cfg"))
        v = vlib.validate_trace(spec, cfgf, trace, model=md.get("model"), ref=md["ref"], timeout=900)
        res["v"] = v
        import re as _re
        dm = _re.search(r'"DIVERGENCES",\s*\[\s*n \|->\s*(\d+)', v["out"])
        res["div"] = int(dm.group(1)) if dm else 0
        if res["div"]:
            dw = _re.search(r'first \|->\s*\[\s*w \|->\s*"([^"]*)"', v["out"], _re.S)
            res["div_first"] = _re.sub(r"\s+", " ", dw.group(1)) if dw else ""
        res["verdict"] = v["verdict"]
        if getattr(self, "gvt_conformance", False) and v["verdict"] == "ok":
            # reference layer for the GVT machinery (GvtTrace.tla): accumulator arithmetic, phase guards, reduction result; counted only
            g = vlib.tlc("GvtTrace.tla", "GvtTrace.cfg", env={"TRACE": trace}, workers=1, timeout=600)
            gm = _re.search(r'"GVTDIV",\s*(\d+),\s*(\d+),\s*(\d+)', g["out"])
            res["gvtdiv"] = tuple(int(x) for x in gm.groups()) if gm else None
        if getattr(self, "want_stats", False) and rc == 0 and v["verdict"] == "ok" and os.path.exists(trace + ".st.bin"):
            # the shipped parser must accept the file as well
            prc, pout = vlib.sh(["python3", "-c", "import sys; sys.path.insert(0, %r); import rootsim_stats as r; s = r.RSStats(%r); "
                                 "print('PARSED', len(s.all_stats))" % (os.path.join(vlib.REPO, "src", "log", "parse"), trace + ".st.bin")], timeout=120)
            res["parser_ok"] = prc == 0 and "PARSED" in pout
            if not res["parser_ok"]:
                res["verdict"] = "bad"
                v["res"]["bad"] = [{"p": "C20", "w": "the shipped parser rootsim_stats.py rejects the statistics file: " + pout[-200:].replace('"', "'"), "at": 0}]
        if v["verdict"] == "bad" and rc == 4:
            res["hang_class"] = classify_hang(trace)
        return res

    def account(self, res):
        c = res["cfg"]
        self.stats["parallel_traces"] += 1
        key = (res["md"]["family"], res["md"]["mseed"], c.get("threads"), c.get("ckpt"), c.get("batch"), c.get("period"),
               c.get("switch"), c.get("policy"), c.get("sseed"), c.get("term"), c.get("stop_at"), c.get("ranks"), c.get("net"), c.get("skew"), c.get("park"))
        self.stats["distinct_cfg"].add(key)
        v = res.get("v")
        if v:
            self.stats["states"] += v["distinct"]
            if v.get("res"):
                self.stats["lines"] += v["res"]["reached"]
        if res.get("div"):
            self.stats["divergences"] = self.stats.get("divergences", 0) + res["div"]
            self.stats.setdefault("divergence_kinds", {})
            self.stats["divergence_kinds"][res.get("div_first", "?")] = self.stats["divergence_kinds"].get(res.get("div_first", "?"), 0) + 1
        if "gvtdiv" in res:
            gd = self.stats.setdefault("gvt_conf", {"traces": 0, "accumulator_or_local_minimum_value": 0, "phase_guard": 0, "reduction_result": 0, "not_evaluated": 0})
            if res["gvtdiv"] is None:
                gd["not_evaluated"] += 1
            else:
                gd["traces"] += 1
                gd["accumulator_or_local_minimum_value"] += res["gvtdiv"][0]
                gd["phase_guard"] += res["gvtdiv"][1]
                gd["reduction_result"] += res["gvtdiv"][2]
        if os.path.exists(res["trace"]):
            txt = open(res["trace"]).read()
            self.stats["rollbacks"] += txt.count('"e":"RbBegin"')
            self.stats["fossils"] += txt.count('"e":"Fossil"')
            self.stats["gvts"] += txt.count('"e":"Gvt"')
            self.stats["antis"] += txt.count('"e":"AntiLocal"')
            self.stats["rantis"] += txt.count('"e":"AntiRemote"')
            self.stats["early"] += txt.count('"e":"EarlyStore"')
            self.stats["earlymatch"] += txt.count('"e":"EarlyMatch"')
            self.stats["rantimatch"] += txt.count('"e":"RAntiMatch"')
        vd = res["verdict"]
        if vd == "ok":
            if len(self.samples) < 3:
                self.samples.append({"model": "%s/%d" % (res["md"]["family"], res["md"]["mseed"]), "cfg": c,
                                     "lines": v["res"]["total"] if v and v.get("res") else 0})
            return
        if vd == "bad":
            b = v["res"]["bad"][0]
            for cand in v["res"]["bad"]:
                if cand["p"] in self.own:
                    b = cand
                    break
            if b["p"] == "C08" and res.get("hang_class"):
                hc = res["hang_class"]
                for f in self.kf.get("findings", []):
                    if f.get("key") == hc:
                        self.stats["hangs_known"] += 1
                        self.known.append({"finding": f, "cfg": c, "model": (res["md"]["family"], res["md"]["mseed"])})
                        return
            for f in self.kf.get("findings", []):
                if f.get("property") == b["p"] and f.get("match") and f["match"] in b["w"] and \
                        (not f.get("family") or f["family"] == res["md"]["family"]):
                    self.known.append({"finding": f, "cfg": c, "model": (res["md"]["family"], res["md"]["mseed"])})
                    return
            rec = {"property": b["p"], "what": b["w"], "line": b["at"], "cfg": c,
                   "model": (res["md"]["family"], res["md"]["mseed"]), "trace": res["trace"], "md": res["md"]}
            if b["p"] == "DIV":
                self.machinery.append(rec)
            elif b["p"] in self.own:
                self.violations.append(rec)
            else:
                self.other.append(rec)
            return
        rec = {"property": "?", "what": "trace %s: %s" % (vd, res.get("why") or (v or {}).get("error") or
                                                           json.dumps((v or {}).get("res"))), "cfg": c,
               "model": (res["md"]["family"], res["md"]["mseed"]), "trace": res["trace"], "md": res["md"]}
        self.machinery.append(rec)

    # -------------------------------------------------------------- whole campaign
    @_timed
    def run(self, models, cfgs_per_model, emphasis=None, fixed_cfgs=None):
        r = random.Random(self.seed * 1000003 + sum(map(ord, self.pid)))
        mds = vlib.pmap(lambda fm: self.prepare_model(fm[0], fm[1], fm[2] if len(fm) > 2 else "small"), models)
        jobs = []
        for md in mds:
            self.stats["models"] += 1
            if not md["ok"]:
                if md.get("skipped"):
                    self.stats["models_skipped"] = self.stats.get("models_skipped", 0) + 1
                else:
                    self.machinery.append({"property": "C10", "what": md["why"], "model": (md["family"], md["mseed"])})
                continue
            cs = [sample_cfg(r, emphasis) for _ in range(cfgs_per_model)] + list(fixed_cfgs or [])
            if md["family"] == "chain":
                # the trigger LP belongs to the last thread: keep that thread off the processor while the chain runs ahead
                # (measured on the seeded change C04b: with the iteration-granular policy, a switch at every pass, batch 1 and no skew about
                # a third of the runs on an 8-hop chain reach the window; other settings almost never)
                cs = [dict(c, threads=3, park=r.choice([150, 300, 600, 1000, 1500, 3000]), batch=r.choice([1, 1, 1, 2]),
                           switch=r.choice(["1/1", "1/1", "1/1", "1/2", "1/4"]), policy=r.choice([4, 4, 4, 4, 0, 2]), skew=r.choice([0, 0, 0, c.get("skew", 0)]))
                      if not c.get("ranks") else c for c in cs]
            for i, c in enumerate(cs):
                jobs.append((md, c, i))
        results = vlib.pmap(lambda j: self.run_one(*j), jobs)
        for res in results:
            self.account(res)
        return results

    # -------------------------------------------------------------- micro-model saturation on the real code
    @_timed
    def micro_phase(self, name, nruns, ranks=0, threads=2):
        """run the real core on a micro-model of TimeWarpMC under many schedules, keep the runs with distinct
        interleavings of the shared accesses, validate them (concatenated with Reset lines) with TimeWarpTrace"""
        import hashlib
        md = self.prepare_model("micro_" + name, 0)
        self.stats["models"] += 1
        if not md["ok"]:
            self.machinery.append({"property": "C10", "what": md["why"], "model": ("micro_" + name, 0)})
            return
        r = random.Random(self.seed * 77 + len(name))
        core = ("Push", "Drain", "Extract", "Flag", "AntiLocal", "Undo", "Exec", "RbBegin", "Restore", "Free", "Ckpt",
                "NetSend", "NetRecv", "AntiRemote", "EarlyStore", "EarlyMatch", "RAntiMatch")

        def one(i):
            c = {"threads": threads, "ckpt": r.choice([1, 2, 3, 0]), "batch": r.choice([1, 1, 2, 64]), "period": r.choice([0, 50, 100000]),
                 "sseed": self.seed * 100000 + i, "switch": ["1/1", "1/2", "1/3", "1/5"][i % 4], "policy": [0, 0, 2, 4][i % 4 if i % 8 else 3],
                 "budget": 250000}   # a micro-model run needs a few thousand scheduling steps; a run that hangs at shutdown is cut early
            if ranks:
                c.update({"ranks": ranks, "net": i % 2, "batch": r.choice([1, 1, 2]), "period": r.choice([0, 0, 50])})
            tr = os.path.join(md["dir"], "mic_%d.ndjson" % i)
            rc, out = run_twh(self.bdir, ["--model", md["txt"], "--out", tr] + cfg_args(c), binary="twd" if ranks else "twh")
            if rc not in (0, 4):
                return None
            sig = hashlib.sha1()
            for line in open(tr):
                try:
                    e = json.loads(line)
                except Exception:
                    continue
                if e.get("e") in core:
                    sig.update(("%s,%s,%s;" % (e.get("thr"), e.get("e"), e.get("m", e.get("lp", "")))).encode())
            return (sig.hexdigest(), tr, c, rc)

        cfg_rs = vlib.pmap(one, list(range(nruns)))
        distinct = {}
        for x in cfg_rs:
            if x and x[0] not in distinct:
                distinct[x[0]] = x
        runs = list(distinct.values())
        self.stats["micro_runs"] = self.stats.get("micro_runs", 0) + nruns
        self.stats["micro_distinct"] = self.stats.get("micro_distinct", 0) + len(runs)
        self._validate_concat(md, runs, "micro_" + name)

    def _validate_concat(self, md, runs, mname):
        """runs: [(signature, trace, cfg, rc)] of one model; validated in chunks (traces concatenated with Reset lines) by TimeWarpTrace"""
        chunks = [runs[i:i + 40] for i in range(0, len(runs), 40)]

        def val(chunk_i):
            k, chunk = chunk_i
            cat = os.path.join(md["dir"], "cat_%s_%d.ndjson" % (mname, k))
            offs = []
            with open(cat, "w") as f:
                n = 0
                for j, (sg, tr, c, rc) in enumerate(chunk):
                    if j:
                        f.write('{"n":0,"thr":-1,"e":"Reset"}\n')
                        n += 1
                    offs.append((n + 1, tr, c))
                    for line in open(tr):
                        f.write(line)
                        n += 1
            v = vlib.validate_trace("TimeWarpTrace.tla", "TimeWarpTrace.cfg", cat, model=md.get("model"), ref=md["ref"], timeout=1500)
            return (v, offs, cat)

        for (v, offs, cat) in vlib.pmap(val, list(enumerate(chunks))):
            self.stats["parallel_traces"] += len(offs)
            self.stats["states"] += v["distinct"]
            if v.get("res"):
                self.stats["lines"] += v["res"]["reached"]
            if v["verdict"] == "ok":
                continue
            if v["verdict"] == "bad":
                b = v["res"]["bad"][0]
                for cand in v["res"]["bad"]:
                    if cand["p"] in self.own:
                        b = cand
                        break
                which = [o for o in offs if o[0] <= b["at"]][-1]
                rec = {"property": b["p"], "what": b["w"], "line": b["at"] - which[0] + 1, "cfg": which[2], "model": (mname, 0),
                       "trace": which[1], "md": md}
                if b["p"] == "C08" and classify_hang(which[1]):
                    hc = classify_hang(which[1])
                    f = [f for f in self.kf.get("findings", []) if f.get("key") == hc]
                    if f:
                        self.known.append({"finding": f[0], "cfg": which[2], "model": (mname, 0)})
                        continue
                if b["p"] == "DIV":
                    self.machinery.append(rec)
                elif b["p"] in self.own:
                    self.violations.append(rec)
                else:
                    self.other.append(rec)
            else:
                self.machinery.append({"property": "?", "what": "micro-model trace %s: %s" % (v["verdict"], (v.get("error") or json.dumps(v.get("res")))[:300]),
                                       "model": (mname, 0)})

    @_timed
    def real_phase(self, models, nruns, labels=("C09", "C01")):
        """truly concurrent worker threads (no cooperative scheduler, nothing traced): with LPs that freeze once their predicate holds the
        state of every LP at LP_FINI is the state C01 speaks about, so the final states of a real-thread run must equal those of the serial
        run of the same binary, whatever the number of threads, the checkpoint interval and the GVT period (C09).  This is the only phase
        that sees data races and effects of the memory model; a run that does not return within its time limit is only counted (the known
        shutdown deadlock D9 and a loaded machine cannot be told apart from a new hang without a trace: C08 is decided by the traced runs)."""
        import re as _re
        r = random.Random(self.seed * 31 + 5)

        def fin(path):
            out = []
            for line in open(path):
                if '"ModelFini"' in line:
                    e = json.loads(line)
                    out.append((e["lp"], e["s"], e["cnt"], e["dgA"], e["dgB"], e["pred"]))
            return sorted(out)

        for fm in models:
            md = self.prepare_model(fm[0], fm[1], fm[2] if len(fm) > 2 else "medium")
            self.stats["models"] += 1
            if not md["ok"]:
                if md.get("skipped"):
                    self.stats["models_skipped"] = self.stats.get("models_skipped", 0) + 1
                else:
                    self.machinery.append({"property": "C10", "what": md["why"], "model": (fm[0], fm[1])})
                continue
            ser = os.path.join(md["dir"], "frozen_serial.ndjson")
            rc, out = run_twh(self.bdir, ["--model", md["txt"], "--out", ser, "--serial", "--quiet-core", "--freeze"], timeout=60)
            if rc != 0:
                self.machinery.append({"property": self.pid, "what": "frozen serial run failed rc=%s %s" % (rc, out[-200:]), "model": (fm[0], fm[1])})
                continue
            ref = fin(ser)
            cfgs = [{"threads": r.choice([2, 3, 4, 4, 6, 8, 8]), "ckpt": r.choice([0, 1, 2, 3, 7]), "period": r.choice([50, 200, 1000, 5000]),
                     "sseed": r.randrange(1, 1 << 30)} for _ in range(nruns)]

            def one(ic):
                i, c = ic
                tr = os.path.join(md["dir"], "real_%d.ndjson" % i)
                rc, out = run_twh(self.bdir, ["--model", md["txt"], "--out", tr, "--real", "--freeze", "--threads", c["threads"], "--ckpt", c["ckpt"],
                                              "--gvt-period", c["period"], "--seed", c["sseed"]], timeout=45)
                if rc != 0:
                    return (c, "hang" if rc == -9 else "rc=%s" % rc, None)
                got = fin(tr)
                return (c, "ok" if got == ref else "diff", tr if got != ref else None)

            # the runs are concurrent by themselves: a few at a time
            res = vlib.pmap(one, list(enumerate(cfgs)), jobs=3)
            st = self.stats.setdefault("real", {"runs": 0, "equal_to_serial": 0, "differ": 0, "not_returned": 0, "crashed": 0})
            for c, verdict, tr in res:
                st["runs"] += 1
                self.stats["distinct_cfg"].add((fm[0], fm[1], "real", json.dumps(c, sort_keys=True)))
                if verdict == "ok":
                    st["equal_to_serial"] += 1
                elif verdict == "diff":
                    st["differ"] += 1
                    for lab in labels:
                        if lab in self.own:
                            self.violations.append({"property": lab, "what": "with truly concurrent worker threads the final LP states differ from the serial run of the same model "
                                                    "(result depends on the number of threads / the interleaving)", "line": 0, "cfg": dict(c, real=1), "model": (fm[0], fm[1]),
                                                    "trace": tr, "md": md})
                            break
                elif verdict == "hang":
                    st["not_returned"] += 1
                else:
                    st["crashed"] += 1
                    self.violations.append({"property": "C11" if "C11" in self.own else self.pid, "what": "real-thread run crashed (%s)" % verdict, "line": 0,
                                            "cfg": dict(c, real=1), "model": (fm[0], fm[1]), "trace": None, "md": md}) if ("C11" in self.own or True) else None

    @_timed
    def sweep_phase(self, family, mseed, cfgs, size="small"):
        """the same model under a list of configurations that differ in one injected delay; traces validated in concatenated chunks"""
        md = self.prepare_model(family, mseed, size)
        self.stats["models"] += 1
        if not md["ok"]:
            if md.get("skipped"):
                self.stats["models_skipped"] = self.stats.get("models_skipped", 0) + 1
            else:
                self.machinery.append({"property": "C10", "what": md["why"], "model": (family, mseed)})
            return

        def one(ic):
            i, c = ic
            tr = os.path.join(md["dir"], "sw_%d.ndjson" % i)
            rc, out = run_twh(self.bdir, ["--model", md["txt"], "--out", tr] + cfg_args(c), binary="twd" if c.get("ranks") else "twh")
            return (str(i), tr, c, rc)

        res = [x for x in vlib.pmap(one, list(enumerate(cfgs))) if x[3] in (0, 4) and os.path.exists(x[1])]
        self.stats["sweep_runs"] = self.stats.get("sweep_runs", 0) + len(res)
        for x in res:
            self.stats["distinct_cfg"].add((family, mseed, json.dumps(x[2], sort_keys=True)))
        self._validate_concat(md, res, "%s_%d" % (family, mseed))

    # -------------------------------------------------------------- behaviours of the specification replayed in the real code
    KIND = {"Push": "VP_Q_PUSH", "Drain": "VP_Q_DRAIN", "Flag": "VP_FLAG", "AntiLocal": "VP_ANTI_LOCAL", "Undo": "VP_UNDO"}

    @_timed
    def replay_phase(self, name, spec, cfg, n, ranks=0, threads=2, exhaustive=False, ckpt=1, sim_num=80):
        """TLC generates behaviours of TimeWarpMC on a micro-model (all of them, or a random sample in simulation mode) as the order of the
        accesses to shared memory; each one is imposed on the real code by the cooperative scheduler (--guide): the thread whose turn it is
        runs until it reports the expected access.  Counted: behaviours the code followed to the end; every resulting trace is validated by
        TimeWarpTrace like any other run.  A behaviour the code cannot follow is a divergence between specification and code (reported in the
        evidence, and as a machinery failure when more than a tenth of the sample diverges), not a verdict on a property."""
        import re as _re
        md = self.prepare_model("micro_" + name, 0)
        self.stats["models"] += 1
        if not md["ok"]:
            self.machinery.append({"property": "C10", "what": md["why"], "model": ("micro_" + name, 0)})
            return
        base = open(os.path.join(vlib.SPEC, cfg)).read().replace("RecordSched = FALSE", "RecordSched = TRUE").split("\n")
        tmp = os.path.join(self.scr, "sched_%s.cfg" % name)
        open(tmp, "w").write("\n".join([x for x in base if not x.startswith("INVARIANT")] + ["INVARIANT EmitSched", "INVARIANT NoCheckFails"]) + "\n")
        if exhaustive:
            r = vlib.tlc(spec, tmp, extra=["-noGenerateSpecTE"], workers=8, timeout=3000, heap="12g")
        else:
            r = vlib.tlc(spec, tmp, extra=["-noGenerateSpecTE", "-seed", str(self.seed + 11)], workers=4, timeout=900, heap="4g", simulate=sim_num, depth=600)
        scheds = sorted(set(_re.findall(r'"SCHED", "(.*?)">>', r["out"])))
        if not scheds:
            self.machinery.append({"property": self.pid, "what": "no behaviour generated by TLC for %s/%s: %s" % (spec, cfg, r["error"] or r["out"][-300:])})
            return
        random.Random(self.seed * 5 + 1).shuffle(scheds)
        total = len(scheds)
        scheds = scheds[:n]
        pts = hook_points()
        kind = {k: pts[v] for k, v in self.KIND.items()}
        kind.update({"NetSend": 100, "NetRecv": 101})

        def one(i):
            js = json.loads(scheds[i].replace('\\"', '"'))
            g = os.path.join(md["dir"], "guide_%d.txt" % i)
            open(g, "w").write("".join("%d %d\n" % (t, kind[k]) for t, k in js))
            c = {"threads": threads, "ckpt": ckpt, "batch": 1, "period": 100000, "sseed": self.seed * 1000 + i, "switch": "1/2", "policy": 0, "budget": 400000}
            if ranks:
                c.update({"ranks": ranks, "net": 1})
            tr = os.path.join(md["dir"], "rep_%d.ndjson" % i)
            rc, out = run_twh(self.bdir, ["--model", md["txt"], "--out", tr, "--guide", g] + cfg_args(c), binary="twd" if ranks else "twh")
            m = _re.search(r"GUIDE status=(\d) pos=(\d+) len=(\d+) ?(.*)", out)
            return (str(i), tr, c, rc, int(m.group(1)) if m else -1, m.group(4) if m else out[-200:], len(js))

        res = vlib.pmap(one, list(range(len(scheds))))
        followed = [x for x in res if x[4] == 1]
        st = self.stats.setdefault("replay", [])
        st.append({"micro_model": name, "spec": spec, "cfg": cfg, "behaviours_generated_by_tlc": total, "exhaustive_enumeration": bool(exhaustive),
                   "replayed_in_real_code": len(res), "followed_to_the_end": len(followed), "diverged": len(res) - len(followed),
                   "first_divergence": next((x[5] for x in res if x[4] != 1), ""), "shared_accesses_per_behaviour_max": max(x[6] for x in res)})
        if len(res) - len(followed) > max(1, len(res) // 10):
            self.machinery.append({"property": self.pid, "what": "the real code could not follow %d of %d behaviours of %s (%s)" % (
                len(res) - len(followed), len(res), spec, next((x[5] for x in res if x[4] != 1), ""))})
        self._validate_concat(md, [(x[0], x[1], x[2], x[3]) for x in res if x[3] in (0, 4) and os.path.exists(x[1])], "replay_" + name)

    # -------------------------------------------------------------- component drivers (same build)
    @_timed
    def driver_phase(self, runs):
        """runs: [{driver, args(trace)->list, spec, cfg, label}]; results are folded into this campaign"""
        def one(run):
            tr = os.path.join(self.scr, "t_%s.ndjson" % run["label"])
            rc, out = vlib.sh([os.path.join(self.bdir, run["driver"])] + [str(a) for a in run["args"](tr)], timeout=run.get("timeout", 300))
            if rc != 0:
                return {"run": run, "verdict": "machinery", "why": "driver rc=%d %s" % (rc, out[-300:]), "trace": tr}
            v = vlib.validate_trace(run["spec"], run["cfg"], tr, timeout=run.get("tlc_timeout", 1500))
            return {"run": run, "verdict": v["verdict"], "v": v, "trace": tr}
        n_lines = 0
        import re as _re
        for res in vlib.pmap(one, runs):
            self.stats["serial_traces"] += 1
            v = res.get("v")
            if v:
                self.stats["states"] += v["distinct"]
                if v.get("res"):
                    n_lines += v["res"]["reached"]
                m = _re.search(r'"DIVERGENCES",\s*(\d+)', v["out"])
                if m:
                    self.stats["divergences"] = self.stats.get("divergences", 0) + int(m.group(1))
            if res["verdict"] == "ok":
                if len(self.samples) < 4:
                    try:
                        self.samples.append({"driver": res["run"]["driver"], "first_lines": open(res["trace"]).read(500).split("\n")[:3]})
                    except Exception:
                        pass
                continue
            if res["verdict"] == "bad":
                b = v["res"]["bad"][0]
                txt = ""
                try:
                    txt = open(res["trace"]).read().split("\n")[b["at"] - 1][:300]
                except Exception:
                    pass
                rec = {"property": b["p"], "what": b["w"] + " | " + txt, "line": b["at"], "cfg": {"driver": res["run"]["driver"], "label": res["run"]["label"]},
                       "model": (res["run"]["driver"], res["run"]["label"]), "trace": res["trace"], "md": {}}
                if b["p"] == "DIV":
                    self.machinery.append(rec)
                elif b["p"] in self.own:
                    self.violations.append(rec)
                else:
                    self.other.append(rec)
            else:
                self.machinery.append({"property": "?", "what": "%s: trace %s %s %s" % (res["run"]["label"], res["verdict"], res.get("why", ""),
                                                                                      json.dumps((v or {}).get("res"))[:300])})
        self.stats["driver_lines"] = self.stats.get("driver_lines", 0) + n_lines
        return n_lines

    @_timed
    def mc_phase(self, spec, cfg, label, **kw):
        r = vlib.tlc(spec, cfg, extra=["-noGenerateSpecTE"], **kw)
        self.stats.setdefault("mc", []).append({"spec": spec, "cfg": cfg, "what": label, "states": r["states"], "distinct": r["distinct"],
                                                "depth": r["depth"], "violated": r["violated"], "error": r["error"], "timeout": r["timeout"],
                                                "wall_s": round(r["wall"], 1)})
        self.stats["states"] += r["distinct"]
        if r["violated"]:
            self.violations.append({"property": self.pid, "what": "TLC: %s violated in %s/%s (%s)" % (r["violated"], spec, cfg, label),
                                    "line": 0, "cfg": {}, "model": (spec, cfg), "trace": None, "md": {}})
        elif r["error"] or (r["timeout"] and not kw.get("ok_timeout")) or not r["distinct"]:
            self.machinery.append({"property": self.pid, "what": "model checking of %s/%s failed: %s" % (spec, cfg, r["error"] or "timeout")})
        return r

    @_timed
    @_timed
    def mc_known_phase(self, spec, cfg, prop, finding_key, label, **kw):
        """a configuration that TLC is EXPECTED to refute: the counterexample is the design-level form of a recorded known finding.
        If TLC no longer refutes it the specification and the finding have drifted apart (machinery failure, not a verdict)."""
        r = vlib.tlc(spec, cfg, extra=["-noGenerateSpecTE"], **kw)
        viol = r["violated"] or ("temporal" if "Temporal property" in r["out"] and "was violated" in r["out"] else None)
        hit = bool(viol) and (prop in r["out"])
        self.stats.setdefault("mc_known", []).append({"spec": spec, "cfg": cfg, "property_refuted": prop, "refuted": hit, "what": label,
                                                      "known_finding": finding_key, "states": r["states"], "distinct": r["distinct"]})
        self.stats["states"] += r["distinct"]
        if hit:
            f = [f for f in self.kf.get("findings", []) if f.get("key") == finding_key or f.get("id") == finding_key]
            if f:
                self.known.append({"finding": f[0], "cfg": {"spec": spec, "cfg": cfg}, "model": (spec, cfg)})
        else:
            self.machinery.append({"property": self.pid, "what": "%s/%s no longer refutes %s (known finding %s): %s" % (spec, cfg, prop, finding_key, r["error"] or "holds")})

    def probe_phase(self, spec, cfg, probes, **kw):
        """non-vacuity: each probe is an invariant stating that a scenario never happens; TLC must VIOLATE it (the scenario is reachable
        in the configuration that is model checked); a probe that holds means the configuration does not exercise the scenario"""
        base = open(os.path.join(vlib.SPEC, cfg)).read().split("\n")
        for pr, what in probes:
            lines = [x for x in base if not x.startswith("INVARIANT")] + ["INVARIANT " + pr]
            tmp = os.path.join(self.scr, "probe_%s.cfg" % pr)
            open(tmp, "w").write("\n".join(lines) + "\n")
            r = vlib.tlc(spec, tmp, extra=["-noGenerateSpecTE"], **kw)
            self.stats.setdefault("mc_probes", []).append({"spec": spec, "cfg": cfg, "scenario": what, "reachable": r["violated"] == pr,
                                                           "states_to_witness": r["distinct"]})
            if r["violated"] != pr:
                self.machinery.append({"property": self.pid, "what": "scenario '%s' is not reachable in %s/%s (vacuous configuration): %s" % (
                    what, spec, cfg, r["error"] or r["violated"] or "probe invariant holds")})

    # -------------------------------------------------------------- reporting
    def finish(self, level="model_checking", extra_cov=None, assumptions=None, rule=None):
        level = getattr(self, "level", level)
        wall = time.time() - self.t0
        rc = 0
        seen = set()
        for k in self.known:
            f = k["finding"]
            if f["id"] in seen:
                continue
            seen.add(f["id"])
            if f["property"] in self.own:
                print("KNOWN-FINDING: property=%s %s" % (f["property"], f["what"]))
            else:
                print("NOTE: known finding %s (property %s) was hit by runs of this check" % (f["id"], f["property"]))
        for v in self.violations:
            rp = vlib.save_replay(self.pid, "v%d" % (self.violations.index(v) + 1),
                                  [v.get("trace"), v.get("md", {}).get("txt"), v.get("md", {}).get("model"), v.get("md", {}).get("ref")],
                                  {"property": v["property"], "what": v["what"], "line": v["line"], "cfg": v["cfg"],
                                   "model": v["model"], "replay": "lib/../check %s --replay <this dir>" % self.pid})
            print("VIOLATION property=%s replay=%s  (%s; trace line %s; model %s cfg %s)" % (
                self.pid, rp, v["what"], v["line"], v["model"], json.dumps(v["cfg"])))
            rc = 1
            if self.violations.index(v) >= 2:
                break
        if self.machinery and rc == 0:
            for m in self.machinery[:3]:
                print("MACHINERY-FAILURE %s" % json.dumps({k: m[k] for k in m if k not in ("md",)})[:600])
            rc = 2
        for o in self.other[:3]:
            print("NOTE: failure attributed to another property (reported by its own check): %s %s [%s line %s]" % (
                o["property"], o["what"], o.get("trace") if os.environ.get("VERIF_KEEP") else "", o.get("line")))
        cov = {"states": max(1, self.stats["states"]), "transitions": max(1, self.stats["states"]),
               "traces_validated_against_impl": self.stats["serial_traces"] + self.stats["parallel_traces"],
               "samples": self.samples or [{"note": "no accepted run"}],
               "evaluations": self.stats["parallel_traces"] + self.stats["serial_traces"] + self.stats.get("driver_lines", 0),
               "distinct_nontrivial": len(self.stats["distinct_cfg"]) + self.stats.get("driver_lines", 0),
               "rule": rule or "generated table-driven models x (threads, checkpoint interval, batch, GVT period) x scheduler "
                               "seeds/policies; a case is distinct by (model, configuration, schedule seed) and non-trivial "
                               "when the validated trace contains at least one event execution",
               "models": self.stats["models"], "trace_lines_validated": self.stats["lines"],
               "rollbacks_observed": self.stats["rollbacks"], "fossil_collections_observed": self.stats["fossils"],
               "gvt_values_observed": self.stats["gvts"], "anti_messages_observed": self.stats["antis"],
               "remote_anti_messages_observed": self.stats["rantis"], "early_anti_messages_parked": self.stats["early"],
               "early_anti_messages_matched": self.stats["earlymatch"], "remote_anti_rollbacks": self.stats["rantimatch"],
               "known_finding_hits": len(self.known), "other_property_failures": len(self.other),
               "driver_lines_validated": self.stats.get("driver_lines", 0), "conformance_divergences": self.stats.get("divergences", 0),
               "model_checking_runs": self.stats.get("mc", []), "model_checking_reachability_probes": self.stats.get("mc_probes", []),
               "design_level_reproduction_of_known_findings": self.stats.get("mc_known", []),
               "tlc_behaviours_replayed_in_real_code": self.stats.get("replay", []), "phase_wall_s": self.stats.get("phase_wall_s", []), "single_delay_sweep_runs": self.stats.get("sweep_runs", 0), "real_thread_runs": self.stats.get("real", {}), "models_left_out_serial_validation_timeout": self.stats.get("models_skipped", 0), "gvt_protocol_conformance_divergences": self.stats.get("gvt_conf", {}),
               "conformance_divergence_kinds": self.stats.get("divergence_kinds", {}),
               "micro_model_runs_on_real_code": self.stats.get("micro_runs", 0), "micro_model_distinct_interleavings": self.stats.get("micro_distinct", 0),
               "exhaustive": False}
        if extra_cov:
            cov.update(extra_cov)
        vlib.write_evidence(self.pid, self.tier, self.seed, level, cov, wall, violations=len(self.violations),
                            assumptions=assumptions or [
                                "sequential consistency: threads interleave only at the observation points (cooperative scheduler)",
                                "the serial reference trace is itself validated against SeqSim by TLC before use",
                                "logical digests cover the model-owned bytes of every live block and the LP's generator words"])
        return rc
