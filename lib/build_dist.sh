#!/bin/bash
# build_dist.sh <outdir>: the multi-rank harness.  The core (with distributed/mpi.c compiled against the fake
# <mpi.h>) and the per-rank part of the harness are linked into one relocatable object, which is copied three
# times with every defined global symbol renamed (r0_, r1_, r2_): three independent ranks in one process.
set -e
OUT=$1
REPO=${VERIF_REPO:-/repo}
HERE=$(cd "$(dirname "$0")/.." && pwd)
mkdir -p "$OUT/dobj"
CC=gcc
CFLAGS="-std=gnu11 -O1 -g -DNDEBUG -DROOTSIM_VERIF -DTW_DIST -DROOTSIM_VERSION=\"verif\" -I$HERE/harness/fakempi -I$REPO/src -I$HERE/harness -w"
cd "$REPO/src"
SRCS=$(find . -name '*.c' ! -path './distributed/no_mpi.c' | sort)
pids=()
for f in $SRCS; do
  o="$OUT/dobj/$(echo "$f" | sed 's#^\./##; s#/#_#g; s#\.c$#.o#')"
  $CC $CFLAGS -c "$f" -o "$o" &
  pids+=($!)
done
for p in "${pids[@]}"; do wait "$p"; done
cd "$HERE/harness"
$CC $CFLAGS -DTW_RANK_PART -c twh.c -o "$OUT/dobj/zz_rankpart.o"
ld -r -o "$OUT/rank.o" "$OUT"/dobj/*.o
nm --defined-only -g "$OUT/rank.o" | awk '{print $3}' | sort -u > "$OUT/syms.txt"
for k in 0 1 2; do
  awk -v k=$k '{print $1, "r" k "_" $1}' "$OUT/syms.txt" > "$OUT/map$k.txt"
  objcopy --redefine-syms="$OUT/map$k.txt" "$OUT/rank.o" "$OUT/r$k.o"
done
$CC $CFLAGS -DTW_SHARED_PART -c twh.c -o "$OUT/s_twh.o"
$CC $CFLAGS -c vsched.c -o "$OUT/s_vsched.o"
$CC $CFLAGS -c fakempi.c -o "$OUT/s_fakempi.o"
$CC -o "$OUT/twd" "$OUT/r0.o" "$OUT/r1.o" "$OUT/r2.o" "$OUT/s_twh.o" "$OUT/s_vsched.o" "$OUT/s_fakempi.o" \
   -Wl,--wrap=pthread_create,--wrap=pthread_join,--wrap=gettimeofday -lm -lpthread
echo "built $OUT/twd"
