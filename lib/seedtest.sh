#!/bin/bash
# seedtest.sh <patch> <property> [tier]: run a check against a scratch copy of /repo with a patch applied (never touches /repo,
# /verif/evidence or /verif/replays); prints the exit code and the VIOLATION / MACHINERY lines
P=$(readlink -f "$1"); PROP=$2; TIER=${3:-quick}
W=$(mktemp -d /tmp/seedtest_XXXXXX)
git -C /repo worktree add --detach "$W/repo" HEAD -q || exit 3
( cd "$W/repo" && git apply "$P" ) || { echo "patch does not apply"; git -C /repo worktree remove --force "$W/repo"; rm -rf "$W"; exit 3; }
mkdir -p "$W/out" "$W/scr"
VERIF_REPO="$W/repo" VERIF_OUT="$W/out" VERIF_SCRATCH="$W/scr" timeout 7200 /verif/check $PROP $TIER > "$W/log" 2>&1
rc=$?
echo "rc=$rc"
grep -E "VIOLATION|MACHINERY|KNOWN-FINDING" "$W/log" | head -4 | cut -c1-400
git -C /repo worktree remove --force "$W/repo"; git -C /repo worktree prune
rm -rf "$W"
exit $rc
